"""Model-checking machinery for the hypergraph properties C01-C20 (see /verif/DESIGN.md)."""
