"""./check <ID> quick|thorough   |   ./check <ID> --replay <file>"""
from __future__ import annotations

import importlib
import json
import multiprocessing as mp
import os
import sys
import time
import traceback
import warnings

from . import evidence as ev
from .explorer import HarnessError


def _load(pid):
    return importlib.import_module(f"mc.props.{pid.lower()}")


_MOD = None


def _init(pid):
    global _MOD
    warnings.simplefilter("ignore")
    import logging

    logging.disable(logging.CRITICAL)
    _MOD = _load(pid)


def _work(shard):
    from . import dsl

    via = "ctor"
    if isinstance(shard, tuple) and len(shard) == 3 and shard[0] == "__via__":
        via, shard = shard[1], shard[2]
    dsl.VIA = via
    a = _work1(shard)
    if via != "ctor":
        for v in a.violations.values():
            if isinstance(v.get("witness"), dict):
                v["witness"]["via"] = via
            v["message"] = f"[nodes built through the public decorators] {v['message']}"
        a.counters[f"executions_with_nodes_built_via_{via}"] += a.evaluations
    return a


def _work1(shard):
    try:
        return _MOD.run_shard(shard)
    except HarnessError as e:
        a = ev.Acc()
        a.harness_errors.append(f"{e}\n{traceback.format_exc()}")
        return a
    except (KeyboardInterrupt, SystemExit):
        raise
    except BaseException as e:  # noqa: BLE001 - a BaseException (e.g. CancelledError) escaping a worker would kill it and hang the pool
        a = ev.Acc()
        tb = traceback.extract_tb(e.__traceback__)
        root = os.environ.get("VERIF_REPO", "/repo").rstrip("/") + "/"
        if not isinstance(e, Exception):
            # not an ordinary exception: blame the library when any frame of the traceback is inside it
            lib = [f for f in tb if f.filename.startswith(root)]
            tb = tb[: tb.index(lib[-1]) + 1] if lib else tb
        if tb and tb[-1].filename.startswith(root):
            # raised INSIDE the library on a path where the harness expected it to succeed: a finding about
            # the library (exit 1), not a harness error.  Replay = re-run of this shard.
            where = f"{tb[-1].filename.split('/src/')[-1]}:{tb[-1].name}"
            a.violation(
                {"symptom": "library-raised-unexpectedly", "type": type(e).__name__, "where": where},
                {"shard_replay": list(shard) if isinstance(shard, (list, tuple)) else shard},
                f"{type(e).__name__} raised inside {where}: {str(e)[:200]}",
            )
            return a
        a.harness_errors.append(f"unexpected {type(e).__name__}: {e}\n{traceback.format_exc()}")
        return a


def main(argv):
    if len(argv) < 2:
        print(__doc__)
        return 2
    pid = argv[0].upper()
    mod = _load(pid)
    if argv[1] == "--replay":
        rep = json.load(open(argv[2]))
        _init(pid)
        from . import dsl

        dsl.VIA = rep.get("via", "ctor")
        if "shard_replay" in rep:
            sh = rep["shard_replay"]
            a = _work(("__via__", rep.get("via", "ctor"), tuple(sh) if isinstance(sh, list) else sh))
            vs = [v["message"] for v in a.violations.values()] + a.harness_errors
        else:
            vs = mod.replay(rep)
        for m in vs:
            print("REPLAY-VIOLATION", m)
        if vs:
            print(f"VIOLATION property={pid} replay={argv[2]}")
            return 1
        print("replay: property holds on this case")
        return 0
    tier = argv[1]
    if tier not in ("quick", "thorough"):
        print(__doc__)
        return 2
    seed = int(os.environ.get("VERIF_SEED", "0") or 0)
    t0 = time.time()
    shards = mod.shards(tier, seed)
    if getattr(mod, "BOTH_CONSTRUCTION_PATHS", False):
        # the whole space once with nodes built by the constructors and once through the public decorators
        shards = [("__via__", v, s) for v in ("ctor", "deco") for s in shards]
    nproc = int(os.environ.get("VERIF_WORKERS", "0") or 0) or min(16, os.cpu_count() or 1)
    acc = ev.Acc()
    if nproc <= 1 or len(shards) <= 1:
        _init(pid)
        for s in shards:
            acc.merge(_work(s))
    else:
        ctx = mp.get_context("fork")
        with ctx.Pool(min(nproc, len(shards)), initializer=_init, initargs=(pid,)) as pool:
            it = pool.imap_unordered(_work, shards, chunksize=1)
            limit = int(os.environ.get("VERIF_SHARD_TIMEOUT", "0") or 0) or (1800 if tier == "quick" else 6 * 3600)
            for _ in range(len(shards)):
                try:
                    acc.merge(it.next(timeout=limit))
                except mp.TimeoutError:
                    # a worker died (or a shard hangs): never wait forever, never call it a verdict
                    print(f"HARNESS-ERROR no shard result within {limit}s (a worker process died or a shard does not terminate)")
                    pool.terminate()
                    return 2
    wall = time.time() - t0
    if acc.harness_errors:
        for e in acc.harness_errors[:5]:
            print("HARNESS-ERROR", e)
        return 2
    known = ev.load_known()
    real = []
    seen_known = {}
    for sk, v in sorted(acc.violations.items()):
        k = ev.match_known(pid, v["signature"], known)
        if k is not None:
            seen_known[json.dumps(k["signature"], sort_keys=True)] = (k, v)
        else:
            real.append(v)
    for k, v in seen_known.values():
        print(f"KNOWN-FINDING: property={pid} {k['what']} (seen {v['count']}x this run)")
    level = mod.LEVEL
    cov = {
        "evaluations": acc.evaluations,
        "distinct_nontrivial": len(acc.keys),
        "rule": mod.RULE,
        "samples": acc.samples[:6],
        "exhaustive": not acc.caps,
        "caps_hit": acc.caps[:20],
        "distinct_outcomes": len(acc.outcomes),
        "outcome_histogram": {str(k): v for k, v in acc.outcomes.most_common(12)},
        "counters": {str(k): v for k, v in acc.counters.items()},
        "observations_not_judged": {str(k): v for k, v in acc.observations.items()},
        "shards": len(shards),
        "known_findings_seen": [k["what"] for k, _ in seen_known.values()],
    }
    if level == "model_checking":
        cov["states"] = len(acc.states)
        cov["transitions"] = acc.transitions
        cov["traces_validated_against_impl"] = acc.traces
    if hasattr(mod, "coverage_extra"):
        cov.update(mod.coverage_extra(acc, tier, seed))
    try:
        ev.write_evidence(pid, tier, seed, level, cov, mod.ASSUMPTIONS, wall, len(real))
    except Exception as e:  # noqa: BLE001
        print("HARNESS-ERROR evidence invalid:", e)
        return 2
    print(
        f"{pid} {tier} seed={seed}: evaluations={acc.evaluations} distinct={len(acc.keys)} states={len(acc.states)} "
        f"transitions={acc.transitions} outcomes={len(acc.outcomes)} violations={len(real)} known={len(seen_known)} wall={wall:.1f}s"
    )
    if real:
        real.sort(key=lambda v: v["size"])
        for v in real[:8]:
            path = ev.write_replay(pid, tier, v)
            print(f"  {v['message']}  [{v['count']}x]")
            print(f"VIOLATION property={pid} replay={path}")
        if len(real) > 8:
            print(f"  ... and {len(real) - 8} more distinct violation signatures")
        return 1
    return 0


if __name__ == "__main__":
    sys.exit(main(sys.argv[1:]))
