"""Program DSL, builder and the per-execution harness H (DESIGN 3.1).

A program is a JSON-able dict; ``build(program, h)`` turns it into real hypergraph objects whose node
functions are generated with exec() (one distinct definition per node) and report to ``h``.
"""
from __future__ import annotations

import itertools
import keyword as _kw
import warnings

from . import seams
from .explorer import HarnessError

_uid = itertools.count()
_CODE = {}
# construction path of function / gate / interrupt nodes: "ctor" = FunctionNode / RouteNode / IfElseNode / InterruptNode called
# directly; "deco" = through the public decorators @node / @route / @ifelse / @interrupt (which take the node name from the function)
VIA = "ctor"
DECOYS = True


import dataclasses as _dc


@_dc.dataclass(frozen=True)
class FrozenBox:
    """A frozen dataclass holding a mutable list: immutable on the surface only."""

    items: list


def canon(v):
    """JSON round-trip safe value: lists -> tuples (hashable terms)."""
    if isinstance(v, dict) and "$frozen" in v:  # a frozen dataclass instance with a mutable member (C18)
        return FrozenBox([canon(x) for x in v["$frozen"]])
    if isinstance(v, list):
        return tuple(canon(x) for x in v)
    if isinstance(v, tuple):
        return tuple(canon(x) for x in v)
    if isinstance(v, dict):
        if "$list" in v:  # a genuinely mutable list (C18)
            return [canon(x) for x in v["$list"]]
        return {k: canon(x) for k, x in v.items()}
    return v


def jsonable(v):
    if isinstance(v, (tuple, list)):
        return [jsonable(x) for x in v]
    if isinstance(v, dict):
        return {str(k): jsonable(x) for k, x in v.items()}
    if isinstance(v, (str, int, float, bool)) or v is None:
        return v
    if isinstance(v, (set, frozenset)):
        return sorted((jsonable(x) for x in v), key=repr)
    return repr(v)


class InjectedError(Exception):
    def __init__(self, nid, k):
        super().__init__(f"injected failure in {nid}#{k}")
        self.nid = nid
        self.k = k


class Call:
    __slots__ = ("seq", "nid", "args", "k", "run_id", "step", "depth", "path", "kind", "ret", "done_seq", "exc")

    def __init__(self, seq, nid, args, k, tok, kind):
        self.seq = seq
        self.nid = nid
        self.args = args
        self.k = k
        self.kind = kind
        if tok is None:
            self.run_id, self.step, self.depth, self.path = None, None, 0, ()
        else:
            self.run_id, self.step, self.depth, self.path = tok.run_id, tok.step, tok.depth, tok.path
        self.ret = None
        self.done_seq = None
        self.exc = None

    def brief(self):
        return [self.nid, jsonable(self.args)]


class StepTok:
    __slots__ = ("kind", "run_id", "step", "graph", "pre_values", "pre_versions", "ready", "depth", "path", "parent", "provided", "begin_seq", "post", "exc", "pre_decisions", "pre_exec")

    def __repr__(self):
        return f"<step {self.run_id}#{self.step} {self.ready}>"


class H:
    """Per-execution harness: call log, choice points, step observer, in-flight counter."""

    def __init__(self, chooser=None, *, loop=None, suspend=False, fault=None, fault_nodes=None, env_same=True, record_state=False, invalid_menu=False):
        self.ch = chooser
        self.loop = loop
        self.suspend = suspend  # park async bodies on sched points
        self.fault = fault  # None | "choice" | set of (nid, k)
        self.fault_nodes = fault_nodes  # restrict fault choice points to these node ids
        self.env_same = env_same
        self.invalid_menu = invalid_menu
        self.record_state = record_state
        self.calls = []
        self.seq = 0
        self.inv = {}  # nid -> invocation count
        self.last_val = {}  # nid -> last returned value (env mode)
        self.fresh = {}  # nid -> counter of 'new' values
        self.injected = []
        self.inflight = 0
        self.inflight_peak = 0
        self.inflight_log = []
        self.steps = []  # StepTok in begin order
        self.run_steps = {}  # run_id -> count
        self.run_parent = {}  # run_id -> parent StepTok | None
        self.specs = {}  # nid -> node spec
        self.decisions = []  # (seq, gate nid, returned value)
        self.step_hook = None  # callable(tok) at step begin (pruning / monitors)
        self.step_end_hook = None
        self.body_hook = None  # callable(call) inside the body (C18 identity checks, mutation)
        self.trace = []  # generic ordered trace of ("start"/"end", nid, seq)

    # ------------------------------------------------------------------ muted use (pre-use of an object before a derivation)
    _LOGS = ("calls", "injected", "inflight_log", "steps", "decisions", "trace")
    _MAPS = ("inv", "last_val", "fresh", "run_steps", "run_parent")

    def snapshot(self):
        return ({k: len(getattr(self, k)) for k in self._LOGS}, {k: dict(getattr(self, k)) for k in self._MAPS}, (self.seq, self.inflight, self.inflight_peak, self.ch, self.fault, self.suspend, self.step_hook, self.step_end_hook, self.body_hook))

    def restore(self, snap):
        lens, maps, (self.seq, self.inflight, self.inflight_peak, self.ch, self.fault, self.suspend, self.step_hook, self.step_end_hook, self.body_hook) = snap
        for k, n in lens.items():
            del getattr(self, k)[n:]
        for k, d in maps.items():
            m = getattr(self, k)
            m.clear()
            m.update(d)

    # ------------------------------------------------------------------ choices
    def choose(self, kind, label, n):
        if self.ch is None:
            return 0
        return self.ch.choose(kind, label, n)

    # ------------------------------------------------------------------ step observer
    def step_begin(self, kind, graph, state, ready_nodes, provided, run_id):
        tok = StepTok()
        tok.kind = kind
        tok.run_id = run_id
        tok.step = self.run_steps.get(run_id, 0)
        self.run_steps[run_id] = tok.step + 1
        tok.graph = graph
        tok.ready = [n.name for n in ready_nodes]
        tok.provided = provided
        tok.begin_seq = self.seq
        parent = seams.cur_step.get()
        if run_id not in self.run_parent:
            self.run_parent[run_id] = parent
        parent = self.run_parent[run_id]
        tok.parent = parent
        tok.depth = 0 if parent is None else parent.depth + 1
        tok.path = () if parent is None else parent.path + (graph.name,)
        tok.pre_values = dict(state.values)
        tok.pre_versions = dict(state.versions)
        tok.pre_decisions = dict(state.routing_decisions)
        tok.pre_exec = set(state.node_executions)
        tok.post = None
        tok.exc = None
        self.steps.append(tok)
        if self.step_hook is not None:
            self.step_hook(tok, state)
        return tok

    def step_end(self, tok, new_state, exc):
        tok.exc = exc
        if new_state is not None:
            tok.post = new_state
        if self.step_end_hook is not None:
            self.step_end_hook(tok, new_state, exc)

    # ------------------------------------------------------------------ node bodies
    def _enter(self, nid, args):
        spec = self.specs[nid]
        k = self.inv.get(nid, 0)
        self.inv[nid] = k + 1
        c = Call(self.seq, nid, dict(args), k, seams.cur_step.get(), spec["kind"])
        self.seq += 1
        self.calls.append(c)
        if spec["kind"] == "fn":
            self.inflight += 1
            if self.inflight > self.inflight_peak:
                self.inflight_peak = self.inflight
        return spec, c

    def _leave(self, spec, c, ret=None, exc=None):
        if spec["kind"] == "fn":
            self.inflight -= 1
        c.ret = ret
        c.exc = exc
        c.done_seq = self.seq
        self.seq += 1

    def _maybe_fault(self, spec, c):
        f = self.fault
        if f is None and not spec.get("fail_args") and not spec.get("fail_if"):
            return
        fi = spec.get("fail_if")
        if fi and eval(fi, {}, dict(c.args)):
            e = InjectedError(c.nid, c.k)
            e.item = tuple(sorted((k, repr(v)) for k, v in c.args.items()))
            self.injected.append(e)
            raise e
        fa = spec.get("fail_args")
        if fa:
            for p, vals in fa.items():
                if any(canon(c.args.get(p)) == canon(v) for v in vals):
                    e = InjectedError(c.nid, c.k)
                    e.item = canon(c.args.get(p))
                    self.injected.append(e)
                    raise e
        if spec.get("nofault") or f is None:
            return
        if f == "choice":
            if self.fault_nodes is not None and c.nid not in self.fault_nodes:
                return
            if self.choose("fault", f"{c.nid}#{c.k}", 2) == 1:
                e = InjectedError(c.nid, c.k)
                self.injected.append(e)
                raise e
        elif (c.nid, c.k) in f or (c.nid, None) in f:
            e = InjectedError(c.nid, c.k)
            self.injected.append(e)
            raise e

    def call(self, nid, args):
        spec, c = self._enter(nid, args)
        try:
            if self.body_hook is not None:
                self.body_hook(c, "enter")
            self._maybe_fault(spec, c)
            ret = self.compute(spec, c)
        except BaseException as e:
            self._leave(spec, c, exc=e)
            raise
        self._leave(spec, c, ret)
        if ret is None and spec.get("gen"):
            return ()  # a side-effect-only generator node yields nothing
        return ret

    async def acall(self, nid, args):
        spec, c = self._enter(nid, args)
        try:
            if self.body_hook is not None:
                self.body_hook(c, "enter")
            if self.suspend and self.loop is not None and not spec.get("nosuspend"):
                await self.loop.park(f"{nid}#{c.k}")
            self._maybe_fault(spec, c)
            ret = self.compute(spec, c)
        except BaseException as e:
            self._leave(spec, c, exc=e)
            raise
        self._leave(spec, c, ret)
        if ret is None and spec.get("gen"):
            return ()
        return ret

    # ------------------------------------------------------------------ behaviours
    def term(self, spec, c):
        args = tuple(sorted(c.args.items()))
        outs = spec.get("outs", [])
        if spec["kind"] in ("ifelse", "route"):
            return None
        if len(outs) == 0:
            return None
        if len(outs) == 1:
            return (spec["id"], 0, args)
        return tuple((spec["id"], i, args) for i in range(len(outs)))

    def gate_menu(self, spec):
        from hypergraph import END

        if spec["kind"] == "ifelse":
            menu = [True, False]
            if self.invalid_menu:
                menu += [1, None, "x"]
            return menu
        tg = [END if t == "END" else t for t in spec["targets"]]
        if spec.get("fallback") is not None:
            fb = END if spec["fallback"] == "END" else spec["fallback"]
            if fb not in tg:
                tg.append(fb)
        if spec.get("multi"):
            menu = []
            for r in range(len(tg) + 1):
                for sub in itertools.combinations(tg, r):
                    menu.append(list(sub))
            menu.append(None)
            if self.invalid_menu:
                menu += [tg[0], ["__nope__"]]
        else:
            menu = list(tg) + [None]
            if self.invalid_menu:
                menu += ["__nope__", [tg[0]]]
        return menu

    def compute(self, spec, c):
        b = spec.get("behav")
        kind = spec["kind"]
        if b is None:
            if kind in ("ifelse", "route"):
                b = "env"
            elif kind == "interrupt":
                b = "answer"
            else:
                return self.term(spec, c)
        if isinstance(b, dict) and "const" in b:
            return canon(b["const"])
        if isinstance(b, dict) and "py" in b:
            from hypergraph import END

            ns = {"END": END, "H": self, "K": c.k, "CALL": c}
            return eval(b["py"], ns, dict(c.args))
        if isinstance(b, dict) and "seq" in b:  # scripted answers by invocation index (last repeats)
            from hypergraph import END

            s = b["seq"]
            v = s[min(c.k, len(s) - 1)]
            v = END if v == "END" else v
            if kind in ("ifelse", "route"):
                self.decisions.append((c.seq, c.nid, v))
            return v
        if b == "env":
            if kind in ("ifelse", "route"):
                menu = self.gate_menu(spec)
                i = self.choose("env", f"gate:{c.nid}#{c.k}", len(menu))
                v = menu[i]
                self.decisions.append((c.seq, c.nid, v))
                return v
            if kind == "interrupt":
                i = self.choose("env", f"int:{c.nid}#{c.k}", 2)
                return self.answer(spec, c) if i == 0 else None
            # data node: new value or same value as last time
            nid = c.nid
            if self.env_same and nid in self.last_val:
                i = self.choose("env", f"val:{nid}#{c.k}", 2)
            else:
                i = 0
            if i == 1:
                return self.last_val[nid]
            n = self.fresh.get(nid, 0)
            self.fresh[nid] = n + 1
            outs = spec.get("outs", [])
            if len(outs) == 0:
                v = None
            elif len(outs) == 1:
                v = (nid, 0, n)
            else:
                v = tuple((nid, j, n) for j in range(len(outs)))
            self.last_val[nid] = v
            return v
        if b == "answer":
            return self.answer(spec, c)
        if b == "pause":
            return None
        raise HarnessError(f"unknown behaviour {b!r}")

    def answer(self, spec, c):
        outs = spec.get("outs", [])
        args = tuple(sorted(c.args.items()))
        if len(outs) <= 1:
            return ("ans", spec["id"], 0, args)
        return {o: ("ans", spec["id"], i, args) for i, o in enumerate(outs)}


# ---------------------------------------------------------------------- builder
def _gen_func(spec, h, fname, shared=False):
    params = spec.get("params", [])
    defaults = spec.get("defaults", {})
    types = spec.get("types", {})
    glb = {"__H__": h, "__D__": {}, "__T__": {}}
    sig = []
    seen_default = False
    for p in params:
        s = p
        if p in types:
            glb["__T__"][p] = types[p]
            s += f": __T__[{p!r}]"
        if p in defaults:
            glb["__D__"][p] = canon(defaults[p])
            s += f" = __D__[{p!r}]"
            seen_default = True
        elif seen_default:
            raise HarnessError(f"non-default parameter {p} after default in {spec['id']}")
        sig.append(s)
    ret = ""
    if "return" in types:
        glb["__T__"]["return"] = types["return"]
        ret = " -> __T__['return']"
    alias = spec.get("arg_alias") or {}  # definition parameter name -> logical name recorded in the call log
    if "partial" in spec:
        # the node is built from functools.partial(fn, <value>): a leading positional parameter bound by the partial
        sig.insert(0, "__pv")
        params = ["__pv"] + list(params)
    argd = "{" + ", ".join(f"{alias.get(p, p)!r}: {p}" for p in params) + "}"
    nid = spec["id"]
    nid_expr = repr(nid)
    if shared:
        # nodes that are MEANT to share one function definition: identical code object (hence identical
        # definition hash); the node identity is looked up in the function's globals at call time
        glb["__NID__"] = nid
        nid_expr = "__NID__"
    if spec.get("gen"):
        if spec.get("async"):
            src = f"async def {fname}({', '.join(sig)}){ret}:\n    for __x in await __H__.acall({nid_expr}, {argd}):\n        yield __x\n"
        else:
            src = f"def {fname}({', '.join(sig)}){ret}:\n    yield from __H__.call({nid_expr}, {argd})\n"
    elif spec.get("async"):
        src = f"async def {fname}({', '.join(sig)}){ret}:\n    return await __H__.acall({nid_expr}, {argd})\n"
    else:
        src = f"def {fname}({', '.join(sig)}){ret}:\n    return __H__.call({nid_expr}, {argd})\n"
    code = _CODE.get(src)
    if code is None:
        code = _CODE[src] = compile(src, f"<mc:{nid}>", "exec")
    exec(code, glb)
    return glb[fname]


_PARTIALS = {}


class _CurrentH:
    """Forwards node-body calls to the harness of the execution in progress (seams.CURRENT)."""

    def call(self, nid, args):
        return seams.CURRENT.call(nid, args)

    async def acall(self, nid, args):
        return await seams.CURRENT.acall(nid, args)


def _tuple_or_none(x):
    if not x:
        return None
    return tuple(x)


def build_node(spec, h, funcs=None):
    """Build one hypergraph node from its spec.  ``funcs``: dict shared-function-key -> function."""
    from hypergraph import END, Graph  # noqa: F401
    from hypergraph.nodes.function import FunctionNode
    from hypergraph.nodes.gate import IfElseNode, RouteNode
    from hypergraph.nodes.interrupt import InterruptNode

    kind = spec["kind"]
    nid = spec["id"]
    name = spec.get("name", nid)
    if nid in h.specs and h.specs[nid] is not spec and not spec.get("shared_ok"):
        raise HarnessError(f"duplicate node id {nid}")
    h.specs[nid] = spec
    if kind == "graph":
        inner = build(spec["inner"], h)
        n = inner.as_node(name=name) if spec.get("as_name", True) else inner.as_node()
        if spec.get("map_over"):
            kw = {}
            if "map_mode" in spec:
                kw["mode"] = spec["map_mode"]
            if "map_err" in spec:
                kw["error_handling"] = spec["map_err"]
            if "clone" in spec:
                kw["clone"] = spec["clone"]
            touch(n)
            n = n.map_over(*spec["map_over"], **kw)
    else:
        fkey = spec.get("func_key")
        if "partial" in spec:
            # the identity of a functools.partial is the OBJECT (its definition hash is address based), as for a
            # user who keeps one partial around: built once per (node, value) and re-used by every later build; the
            # wrapped function reports to whichever harness is current
            import functools

            pk = (nid, repr(spec["partial"]), bool(spec.get("async")))
            fn = _PARTIALS.get(pk)
            if fn is None:
                fn = _PARTIALS[pk] = functools.partial(_gen_func(spec, _CurrentH(), spec.get("fname", nid), shared=fkey is not None), canon(spec["partial"]))
        else:
            deco = VIA == "deco" and not spec.get("no_deco") and str(name).isidentifier() and not _kw.iskeyword(str(name))
            fn = _gen_func(spec, h, name if deco else spec.get("fname", nid), shared=fkey is not None)
        deco = VIA == "deco" and "partial" not in spec and not spec.get("no_deco") and str(name).isidentifier() and not _kw.iskeyword(str(name))
        common = {}
        if spec.get("emit"):
            common["emit"] = tuple(spec["emit"])
        if spec.get("wait_for"):
            common["wait_for"] = tuple(spec["wait_for"])
        if spec.get("cache"):
            common["cache"] = True
        if spec.get("ctor_rename_in"):
            common["rename_inputs"] = dict(spec["ctor_rename_in"])
        if deco:
            import hypergraph as _hg

            # decorators are called with exactly the keywords a user would write (unset options are omitted)
            if spec.get("emit") and len(spec["emit"]) == 1:
                common["emit"] = spec["emit"][0]
            if spec.get("wait_for") and len(spec["wait_for"]) == 1:
                common["wait_for"] = spec["wait_for"][0]
        if kind == "fn":
            outs = spec.get("outs", [])
            on = None if not outs else (outs[0] if len(outs) == 1 else tuple(outs))
            with warnings.catch_warnings():
                warnings.simplefilter("ignore")
                if deco:
                    n = _hg.node(output_name=on, **common)(fn) if (on is not None or common) else _hg.node(fn)
                else:
                    n = FunctionNode(fn, name=name, output_name=on, **common)
        elif kind == "interrupt":
            outs = spec["outs"]
            on = outs[0] if len(outs) == 1 else tuple(outs)
            with warnings.catch_warnings():
                warnings.simplefilter("ignore")
                if deco:
                    n = _hg.interrupt(output_name=on, **common)(fn)
                else:
                    n = InterruptNode(fn, name=name, output_name=on, **common)
        elif kind == "ifelse":
            wt = END if spec["when_true"] == "END" else spec["when_true"]
            wf = END if spec["when_false"] == "END" else spec["when_false"]
            if deco:
                if "default_open" in spec:
                    common["default_open"] = spec["default_open"]
                n = _hg.ifelse(when_true=wt, when_false=wf, **common)(fn)
            else:
                n = IfElseNode(fn, wt, wf, name=name, default_open=spec.get("default_open", True), **common)
        elif kind == "route":
            tg = [END if t == "END" else t for t in spec["targets"]]
            if spec.get("targets_dict"):
                tg = {t: f"go to {t}" for t in tg}  # the documented dict form (target -> description)
            fb = spec.get("fallback")
            fb = END if fb == "END" else fb
            if deco:
                if "default_open" in spec:
                    common["default_open"] = spec["default_open"]
                if fb is not None:
                    common["fallback"] = fb
                if spec.get("multi"):
                    common["multi_target"] = True
                n = _hg.route(targets=tg, **common)(fn)
            else:
                n = RouteNode(fn, tg, fallback=fb, multi_target=bool(spec.get("multi")), name=name, default_open=spec.get("default_open", True), **common)
        else:
            raise HarnessError(f"unknown node kind {kind}")
        if deco and n.name != name:
            raise HarnessError(f"decorator-built node is called {n.name!r}, expected {name!r}")
    if spec.get("rename_in_chain"):
        for m in spec["rename_in_chain"]:
            touch(n)  # the node is USED between renames (fills any cached lookup tables)
            n = n.with_inputs(dict(m))
    elif spec.get("rename_in"):
        touch(n)  # every derivation in a generated program is a derivation from a USED node
        n = n.with_inputs(dict(spec["rename_in"]))
    if spec.get("rename_out_chain"):
        for m in spec["rename_out_chain"]:
            touch(n)
            n = n.with_outputs(dict(m))
    elif spec.get("rename_out"):
        touch(n)
        n = n.with_outputs(dict(spec["rename_out"]))
    return n


def touch(n):
    """Use a node the way a graph would (spec, defaults, types, name maps) so that every lazily cached table is filled."""
    from hypergraph import Graph

    try:
        Graph([n]).inputs
    except Exception:  # noqa: BLE001 - e.g. a gate whose targets are not in a one-node graph
        pass
    for p in n.inputs:
        n.has_default_for(p)
        n.has_signature_default_for(p)
        n.get_input_type(p)
    n.map_inputs_to_params({p: None for p in n.inputs})
    getattr(n, "defaults", None)
    getattr(n, "parameter_annotations", None)
    if hasattr(n, "map_outputs_from_original"):
        n.map_outputs_from_original({})
    return n


def build(program, h, nodes_out=None):
    """Build a Graph (with bind / select / entry points applied) from a program."""
    from hypergraph import Graph

    funcs = {}
    nodes = [build_node(s, h, funcs) for s in program["nodes"]]
    order = program.get("order")
    if order is not None:
        nodes = [nodes[i] for i in order]
    if nodes_out is not None:
        nodes_out.extend(nodes)
    kw = {}
    if program.get("name") is not None:
        kw["name"] = program["name"]
    if program.get("edges") is not None:
        kw["edges"] = [tuple(e) for e in program["edges"]]
    if program.get("strict"):
        kw["strict_types"] = True
    g = Graph(nodes, **kw)
    if program.get("bind"):
        g0 = g
        g = g.bind(**{k: canon(v) for k, v in program["bind"].items()})
        if DECOYS:
            # relatives derived from the same objects and bound differently (a later sibling of g and a child of g) must not
            # influence g: every program with bindings is built this way, the relatives are never used again
            try:
                g0.bind(**{k: ("decoy-sibling", k) for k in program["bind"]})
                g.bind(**{k: ("decoy-child", k) for k in program["bind"]})
            except Exception:  # noqa: BLE001 - a decoy that cannot be derived is simply not there
                pass
    if program.get("entry"):
        if program.get("preuse") is not None:
            preuse(g, program["preuse"], h, any(s.get("async") for s in program["nodes"]))
        g = g.with_entrypoint(*program["entry"])
    if program.get("select") is not None:
        if program.get("preuse") is not None:
            preuse(g, program["preuse"], h, any(s.get("async") for s in program["nodes"]))
        g = g.select(*program["select"])
    return g


def preuse(g, inputs, h, is_async):
    """Use a graph object the ordinary way (read its spec, run it once) BEFORE something is derived from it.  The harness
    logs are rolled back afterwards: the run leaves no trace in the observations, only (possibly) in the objects."""
    snap = h.snapshot()
    h.ch = h.fault = h.step_hook = h.step_end_hook = h.body_hook = None
    h.suspend = False
    try:
        g.inputs
        ins = {k: canon(v) for k, v in inputs.items()}
        if is_async:
            run_async(g, ins, h, None, max_iterations=40, error_handling="continue")
        else:
            run_sync(g, ins, h, max_iterations=40, error_handling="continue")
    except Exception:  # noqa: BLE001 - the pre-use is best effort (e.g. the parent needs other inputs)
        pass
    finally:
        h.restore(snap)


# ---------------------------------------------------------------------- running
class _Zero:
    def choose(self, kind, label, n):
        return 0


def run_sync(g, inputs, h, **kw):
    from hypergraph import SyncRunner

    runner = kw.pop("runner", None) or SyncRunner(cache=kw.pop("cache", None))
    method = kw.pop("method", "run")
    with seams.use(h):
        return getattr(runner, method)(g, inputs, **kw)


def run_async(g, inputs, h, chooser, **kw):
    """Run under the virtual loop (every release of a parked body is a 'sched' choice of ``chooser``)."""
    from hypergraph import AsyncRunner

    from .vloop import VLoop

    loop = VLoop()
    h.loop = loop
    runner = kw.pop("runner", None) or AsyncRunner(cache=kw.pop("cache", None))
    budget = kw.pop("budget", 200000)
    method = kw.pop("method", "run")
    try:
        with seams.use(h):
            coro = getattr(runner, method)(g, inputs, **kw)
            return loop.run_main(coro, chooser if chooser is not None else _Zero(), budget=budget)
    finally:
        h.loop_exc = list(loop.exc_log)
        loop.close()


class Exec:
    """One execution of the implementation: what the caller observed plus the harness logs."""

    __slots__ = ("result", "exc", "h", "events", "deadlock", "horizon", "warnings", "pruned", "h_inputs", "extra")

    def __init__(self):
        self.result = None
        self.exc = None
        self.events = None
        self.deadlock = False
        self.horizon = False
        self.warnings = []
        self.pruned = False

    @property
    def status(self):
        if self.exc is not None:
            return "raised"
        if self.result is None:
            return "pruned" if self.pruned else ("deadlock" if self.deadlock else "horizon")
        if isinstance(self.result, list):
            return "list"
        return self.result.status.value

    def view(self):
        """Canonical comparable view (status, values, error identity)."""
        if self.exc is not None:
            return ("raised", err_view(self.exc), None)
        r = self.result
        if isinstance(r, list):
            return ("list", tuple((x.status.value, tuple(sorted(x.values.items(), key=repr)), err_view(x.error)) for x in r), None)
        return (r.status.value, tuple(sorted(r.values.items(), key=repr)), err_view(r.error))


def err_view(e):
    if e is None:
        return None
    if isinstance(e, InjectedError):
        if hasattr(e, "item"):
            return ("injected", e.nid, "item", e.item)
        return ("injected", e.nid, e.k)
    return (type(e).__name__, str(e)[:200])


def execute(prog, inputs, *, runner="sync", chooser=None, h=None, graph=None, **kw):
    """Build (unless ``graph`` given) and run a program once on the real implementation."""
    from .explorer import Pruned
    from .vloop import Deadlock, Horizon

    x = Exec()
    if h is None:
        h = H(chooser)
    x.h = h
    try:
        g = graph if graph is not None else build(prog, h)
    except Exception as e:  # noqa: BLE001
        x.exc = e
        return x
    if kw.pop("canon_inputs", True):
        inputs = {k: canon(v) for k, v in inputs.items()}
    kw = {k: v for k, v in kw.items() if v is not None}
    with warnings.catch_warnings(record=True) as w:
        warnings.simplefilter("always")
        try:
            if runner == "sync":
                kw.pop("max_concurrency", None)
                x.result = run_sync(g, inputs, h, **kw)
            else:
                x.result = run_async(g, inputs, h, chooser, **kw)
        except Deadlock:
            x.deadlock = True
        except Horizon:
            x.horizon = True
        except Pruned:
            x.pruned = True
        except (KeyboardInterrupt, SystemExit):
            raise
        except BaseException as e:  # noqa: BLE001 - incl. asyncio.CancelledError reaching the caller: an observable outcome
            x.exc = e
    x.warnings = [str(m.message) for m in w]
    return x


def outcome(fn):
    """Run fn(); return ('ok', result) or ('exc', exception)."""
    try:
        return ("ok", fn())
    except Exception as e:  # noqa: BLE001
        return ("exc", e)


def result_view(res):
    """Canonical JSON-able view of a RunResult."""
    return {
        "status": res.status.value,
        "values": {k: jsonable(v) for k, v in sorted(res.values.items())},
        "error": None if res.error is None else f"{type(res.error).__name__}: {res.error}",
        "pause": None if res.pause is None else [res.pause.node_name, res.pause.output_param, jsonable(res.pause.value)],
    }
