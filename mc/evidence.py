"""Accumulators, evidence files, replay files and the known-findings matcher (DESIGN 3.8)."""
from __future__ import annotations

import collections
import hashlib
import json
import os

VERIF = os.path.dirname(os.path.dirname(os.path.abspath(__file__)))
EVIDENCE_DIR = os.environ.get("VERIF_EVIDENCE_DIR") or os.path.join(VERIF, "evidence")
REPLAY_DIR = os.path.join(os.environ["VERIF_EVIDENCE_DIR"], "replays") if os.environ.get("VERIF_EVIDENCE_DIR") else os.path.join(VERIF, "replays")
KNOWN = os.path.join(VERIF, "known_findings.json")
SCHEMA = "/root/.vp/EVIDENCE.schema.json"


def hk(obj):
    """8-byte stable hash of a JSON-able / repr-able object."""
    if not isinstance(obj, (str, bytes)):
        obj = repr(obj)
    if isinstance(obj, str):
        obj = obj.encode()
    return int.from_bytes(hashlib.blake2b(obj, digest_size=8).digest(), "big")


class Acc:
    """What one shard (or the merged run) covered."""

    def __init__(self):
        self.evaluations = 0
        self.keys = set()  # hashes of distinct non-trivial cases
        self.states = set()  # hashes of distinct states
        self.transitions = 0
        self.traces = 0
        self.violations = {}  # sigkey -> violation dict
        self.samples = []
        self.outcomes = collections.Counter()
        self.counters = collections.Counter()
        self.caps = []
        self.harness_errors = []
        self.observations = collections.Counter()

    def key(self, obj):
        self.keys.add(hk(obj))

    def state(self, obj):
        self.states.add(hk(obj))

    def sample(self, obj, limit=3):
        if len(self.samples) < limit:
            self.samples.append(obj)

    def violation(self, sig, witness, message, size=None):
        sk = json.dumps(sig, sort_keys=True, default=repr)
        if size is None:
            size = len(json.dumps(witness, default=repr))
        v = {"signature": sig, "witness": witness, "message": message, "size": size, "count": 1}
        old = self.violations.get(sk)
        if old is None:
            self.violations[sk] = v
        else:
            old["count"] += 1
            if size < old["size"]:
                v["count"] = old["count"]
                self.violations[sk] = v

    def merge(self, o):
        self.evaluations += o.evaluations
        self.keys |= o.keys
        self.states |= o.states
        self.transitions += o.transitions
        self.traces += o.traces
        for sk, v in o.violations.items():
            old = self.violations.get(sk)
            if old is None:
                self.violations[sk] = v
            else:
                cnt = old["count"] + v["count"]
                if v["size"] < old["size"]:
                    self.violations[sk] = v
                self.violations[sk]["count"] = cnt
        for s in o.samples:
            self.sample(s, 6)
        self.outcomes.update(o.outcomes)
        self.counters.update(o.counters)
        self.observations.update(o.observations)
        self.caps.extend(o.caps)
        self.harness_errors.extend(o.harness_errors)
        return self


def load_known():
    if not os.path.exists(KNOWN):
        return []
    with open(KNOWN) as f:
        return json.load(f)["findings"]


def match_known(pid, sig, known):
    for k in known:
        if k["property"] == pid and k.get("status") == "open" and k["signature"] == sig:
            return k
    return None


def write_replay(pid, tier, v):
    os.makedirs(REPLAY_DIR, exist_ok=True)
    body = {"property": pid, "tier": tier, "signature": v["signature"], "message": v["message"], **v["witness"]}
    txt = json.dumps(body, indent=1, sort_keys=True, default=repr)
    h = hashlib.blake2b(json.dumps(v["signature"], sort_keys=True, default=repr).encode(), digest_size=5).hexdigest()
    path = os.path.join(REPLAY_DIR, f"{pid}-{h}.json")
    with open(path, "w") as f:
        f.write(txt)
    test = os.path.join(REPLAY_DIR, f"{pid}_{h}_test.py")
    with open(test, "w") as f:
        f.write(
            f'"""Plain replay of one violating case of {pid} without the explorer.\n'
            f"Run: PYTHONPATH=/repo/src:/verif PYTHONHASHSEED=0 /venv/bin/python -m pytest -p no:cacheprovider {test}\n"
            f'"""\nimport json\n\nfrom mc.props import {pid.lower()} as prop\n\n\n'
            f"def test_replay():\n    rep = json.load(open({path!r}))\n    from mc import dsl\n\n    dsl.VIA = rep.get('via', 'ctor')  # construction path of the generated nodes\n    vs = prop.replay(rep)\n"
            f"    assert not vs, vs\n"
        )
    return path


def write_evidence(pid, tier, seed, level, coverage, assumptions, wall, nviol):
    os.makedirs(EVIDENCE_DIR, exist_ok=True)
    ev = {
        "property_id": pid,
        "tier": tier,
        "seed": seed,
        "level": level,
        "coverage": coverage,
        "assumptions": assumptions,
        "wall_s": round(wall, 2),
        "violations": nviol,
    }
    import jsonschema

    with open(SCHEMA) as f:
        schema = json.load(f)
    jsonschema.validate(ev, schema)
    path = os.path.join(EVIDENCE_DIR, f"{pid}.json")
    tmp = path + ".tmp"
    with open(tmp, "w") as f:
        json.dump(ev, f, indent=1, sort_keys=True, default=repr)
    os.replace(tmp, path)
    return path


def account_sched(acc, case_key, ch):
    """Model-checking bookkeeping for one explored execution: every choice point is a transition out of
    a frontier state (case, multiset of choices taken so far by label, alternatives offered)."""
    taken = []
    for kind, label, n, c in ch.points:
        acc.transitions += 1
        acc.states.add(hk((case_key, tuple(sorted(taken)), kind, label)))
        taken.append(repr(label[c]) if isinstance(label, tuple) and len(label) == n else f"{label}={c}")
    acc.states.add(hk((case_key, tuple(sorted(taken)), "end")))
