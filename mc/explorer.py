"""Stateless depth-first explorer over choice lists (DESIGN 3.3).

An execution is a function ``run(chooser) -> result``.  Every source of nondeterminism the
harness owns asks ``chooser.choose(kind, label, n)``.  The explorer re-executes with forced
prefixes until every choice list within the deviation bound has been run.
"""
from __future__ import annotations


class HarnessError(Exception):
    """Nondeterminism the harness does not own / broken seam.  Exit 2, never a VIOLATION."""


class Pruned(BaseException):
    """Raised through the implementation to cut a run that reached an already-expanded state."""


class Chooser:
    __slots__ = ("prefix", "expect", "points", "seen", "pruned")

    def __init__(self, prefix=(), expect=(), seen=None):
        self.prefix = list(prefix)
        self.expect = list(expect)
        self.points = []  # (kind, label, n, chosen)
        self.seen = seen
        self.pruned = False

    def choose(self, kind, label, n):
        if n <= 0:
            raise HarnessError(f"choice point {kind}:{label} with no alternatives")
        i = len(self.points)
        if i < len(self.prefix):
            c = self.prefix[i]
            if i < len(self.expect):
                ek, el, en = self.expect[i]
                if (ek, el, en) != (kind, label, n):
                    raise HarnessError(f"replay divergence at point {i}: expected {(ek, el, en)!r} got {(kind, label, n)!r}")
            if c >= n:
                raise HarnessError(f"replay divergence at point {i}: choice {c} out of range {n} ({kind}:{label})")
        else:
            c = 0
        self.points.append((kind, label, n, c))
        return c

    @property
    def choices(self):
        return [p[3] for p in self.points]

    @property
    def deviations(self):
        return sum(1 for p in self.points if p[3] != 0)

    @property
    def in_prefix(self):
        return len(self.points) < len(self.prefix)

    def visit(self, key):
        """State pruning: call at a state boundary.  Cuts the run when the state was expanded before."""
        if self.seen is None or self.in_prefix:
            return
        if key in self.seen:
            self.pruned = True
            raise Pruned()
        self.seen.add(key)


def explore(run, bound=None, max_execs=None, seen=None, stats=None, free_kinds=()):
    """Yield (chooser, result) for every execution within the deviation bound.

    ``bound``: max number of non-default choices per execution (None = unbounded = exhaustive).
    ``max_execs``: hard cap; when hit, stats['cap_hit'] is set (never silently).
    """
    stack = [([], [])]
    n = 0
    while stack:
        prefix, expect = stack.pop()
        ch = Chooser(prefix, expect, seen)
        try:
            res = run(ch)
        except Pruned:
            res = None
        n += 1
        yield ch, res
        pts = ch.points
        if len(pts) < len(prefix):
            raise HarnessError(f"replay divergence: run ended after {len(pts)} points, prefix has {len(prefix)}")
        base = sum(1 for c, p in zip(prefix, pts) if c != 0 and p[0] not in free_kinds)
        labels = [(p[0], p[1], p[2]) for p in pts]
        chs = [p[3] for p in pts]
        # push in reverse so that earlier points / smaller alternatives are explored first
        for i in range(len(pts) - 1, len(prefix) - 1, -1):
            if not (bound is None or pts[i][0] in free_kinds or base + 1 <= bound):
                continue
            for alt in range(pts[i][2] - 1, 0, -1):
                stack.append((chs[:i] + [alt], labels[: i + 1]))
        if max_execs is not None and n >= max_execs and stack:
            if stats is not None:
                stats["cap_hit"] = stats.get("cap_hit", 0) + 1
                stats["cap_left"] = stats.get("cap_left", 0) + len(stack)
            return


def run_once(run, choices):
    """Replay one choice list (no exploration)."""
    ch = Chooser(choices)
    try:
        res = run(ch)
    except Pruned:
        res = None
    return ch, res
