"""Regenerates /verif/MANIFEST.json from the property modules that exist.  Run: python -m mc.manifest"""
from __future__ import annotations

import importlib
import json
import os

VERIF = os.path.dirname(os.path.dirname(os.path.abspath(__file__)))

META = {
    "C01": (
        "exhaustive small-scope enumeration of DAG programs and source assignments against a dependency-order reference evaluator, on the real runners",
        "every gate-free DAG program inside the stated size bounds (all shapes, all default/bound/provided assignments, node-list orders, both runners, "
        "select-induced unsatisfiable nodes) is executed on the implementation and compared with an independent evaluator: values, last-call arguments, "
        "invocation counts. Bounded-exhaustive, not a proof for larger graphs; wiring/precedence bugs are small-scope bugs.",
        "reference evaluator mc/refsem.py; symbolic provenance terms as values; bounds in evidence.coverage.bounds; also: falsy sources (None defaults, '' / None "
        "bound, 0 supplied), generator nodes, None / 1-tuple outputs, nodes derived by rename after use, nested forms with inner / outer bindings, sibling nested "
        "graphs binding one name differently",
    ),
}

NOT_YET = "check not built yet in this session (planned, see DESIGN.md section 4)"


def main():
    props = [json.loads(l) for l in open(os.path.join(VERIF, "properties.jsonl"))]
    checks, na = [], []
    for p in props:
        pid = p["id"]
        try:
            mod = importlib.import_module(f"mc.props.{pid.lower()}")
        except ImportError:
            mod = None
        if mod is None or not (pid in META or hasattr(mod, "TECHNIQUE")):
            na.append({"property_id": pid, "reason": NOT_YET})
            continue
        if hasattr(mod, "TECHNIQUE"):
            tech, text, note = mod.TECHNIQUE, mod.LEVEL_TEXT, mod.LEVEL_NOTE
        else:
            tech, text, note = META[pid]
        checks.append(
            {
                "property_id": pid,
                "quick_cmd": f"./check {pid} quick",
                "thorough_cmd": f"./check {pid} thorough",
                "evidence_file": f"/verif/evidence/{pid}.json",
                "replay_cmd_template": f"./check {pid} --replay {{path}}",
                "engine": "mc",
                "level_claimed": {"category": mod.LEVEL, "text": text, "design_ref": f"DESIGN.md section 4, {pid} (plan) and section 10 (as built: 10.4-10.10 list what each wave of seeded changes added)"},
                "level_note": note,
                "technique": tech,
            }
        )
    man = {
        "version": 1,
        "setup_cmd": "/venv/bin/python -c \"import sys; sys.path[:0]=['/repo/src','/verif']; import hypergraph, diskcache, networkx, jsonschema, mc.cli; assert hypergraph.__file__.startswith('/repo/src'), hypergraph.__file__; print('setup ok')\"",
        "hooks": {
            "guard": "HYPERGRAPH_VERIF",
            "enable": "no source hooks: checks import /repo/src directly (PYTHONPATH=/repo/src) and install run-time pass-through wrappers (mc/seams.py); the guard name is reserved and unused",
            "baseline_off_cmd": "cd /repo && /venv/bin/python -m pytest -ra -q -p no:cacheprovider --timeout=900 --continue-on-collection-errors",
            "source_commits": [],
            "add_only": True,
        },
        "engines": [
            {
                "name": "mc",
                "path": "/verif/mc",
                "serves_properties": [c["property_id"] for c in checks],
                "kind_free_text": "hand-written stateless explicit-state explorer for Python: program/choice-list enumeration with deviation bounding and state pruning, virtual asyncio loop (every completion order of suspended node bodies / async processors), baton and preemption-bounded schedulers for real threads (sys.setprofile / sys.settrace scheduling points), run-time seams, fault / crash / corruption menus, reference oracles and trace monitors; runs the real implementation on every explored execution (traces_validated_against_impl = executions)",
            }
        ],
        "checks": checks,
        "not_applicable": na,
        "notes": "All checks: cwd /verif, /venv/bin/python, PYTHONPATH=/repo/src:/verif, PYTHONHASHSEED=0 (set by ./check). Exit 0 held / 1 VIOLATION / 2 harness error (never a verdict). Genuine defects: /verif/known_findings.json (3 open -> KNOWN-FINDING lines for C01, C08 and C19; 19 fixed, each a 'fix:' commit in /repo). Detection: /verif/seeded/RESULTS.md (every kept seeded change vs the quick check of its property). All twenty quick checks together take about 4 minutes on 16 idle cores; thorough tiers from under a minute to about an hour (C07) and two hours (C01).",
    }
    import jsonschema

    jsonschema.validate(man, json.load(open("/root/.vp/MANIFEST.schema.json")))
    with open(os.path.join(VERIF, "MANIFEST.json"), "w") as f:
        json.dump(man, f, indent=1)
    print(f"MANIFEST.json: {len(checks)} checks, {len(na)} not yet claimed")


if __name__ == "__main__":
    main()
