"""Recording event processors and trace monitors (DESIGN 3.7)."""
from __future__ import annotations

from hypergraph.events.processor import AsyncEventProcessor, EventProcessor


class Boom(Exception):
    pass


class Rec(EventProcessor):
    """Healthy synchronous recorder: the stream plus a 'shutdown' marker."""

    def __init__(self, log=None):
        self.log = [] if log is None else log

    def on_event(self, event):
        self.log.append(event)

    def shutdown(self):
        self.log.append("shutdown")

    def __repr__(self):
        return "Rec"


class ARec(AsyncEventProcessor):
    """Async recorder whose on_event_async may suspend on a sched point (delivery interleaves with bodies)."""

    def __init__(self, h=None, suspend=False):
        self.log = []
        self.h = h
        self.suspend = suspend

    def on_event(self, event):
        self.log.append(event)

    async def on_event_async(self, event):
        i = len(self.log)
        self.log.append(event)
        if self.suspend and self.h is not None and self.h.loop is not None:
            await self.h.loop.park(f"ev{i}:{type(event).__name__}")

    def shutdown(self):
        self.log.append("shutdown")

    async def shutdown_async(self):
        self.log.append("shutdown")

    def __repr__(self):
        return "ARec"


class Failing(EventProcessor):
    """Raises on its k-th event (k=None: on every event); optionally at shutdown."""

    def __init__(self, k=None, at_shutdown=False, every=False):
        self.k = k
        self.n = 0
        self.every = every
        self.at_shutdown = at_shutdown
        self.raised = 0

    def _hit(self):
        i = self.n
        self.n += 1
        if self.every or (self.k is not None and i == self.k):
            self.raised += 1
            raise Boom(f"processor failure at event {i}")

    def on_event(self, event):
        self._hit()

    def shutdown(self):
        if self.at_shutdown:
            self.raised += 1
            raise Boom("processor failure at shutdown")

    def __repr__(self):
        return "Failing"


class UFailing(Failing):
    """A failing processor that defines __eq__ without __hash__ (e.g. a dataclass observer): unhashable."""

    def __eq__(self, other):
        return self is other

    __hash__ = None

    def __repr__(self):
        return "UFailing"


class AFailing(AsyncEventProcessor):
    def __init__(self, k=None, at_shutdown=False, every=False):
        self.k = k
        self.n = 0
        self.every = every
        self.at_shutdown = at_shutdown
        self.raised = 0

    def _hit(self):
        i = self.n
        self.n += 1
        if self.every or (self.k is not None and i == self.k):
            self.raised += 1
            raise Boom(f"processor failure at event {i}")

    def on_event(self, event):
        self._hit()

    async def on_event_async(self, event):
        self._hit()

    def shutdown(self):
        if self.at_shutdown:
            self.raised += 1
            raise Boom("processor failure at shutdown")

    async def shutdown_async(self):
        if self.at_shutdown:
            self.raised += 1
            raise Boom("processor failure at shutdown")

    def __repr__(self):
        return "AFailing"


def _st(v):
    return getattr(v, "value", v)


def canon_stream(log):
    """Canonical, comparable form of an event stream: ids renamed to first-occurrence indices, times dropped."""
    ids = {}

    def rn(x):
        if x is None:
            return None
        if x not in ids:
            ids[x] = len(ids)
        return ids[x]

    out = []
    for e in log:
        if e == "shutdown":
            out.append(("shutdown",))
            continue
        t = type(e).__name__
        row = [t, rn(e.run_id), rn(e.span_id), rn(e.parent_span_id), getattr(e, "node_name", None), getattr(e, "graph_name", None)]
        if t == "RunStartEvent":
            row += [e.is_map, e.map_size]
        elif t == "RunEndEvent":
            row += [_st(e.status), e.error]
        elif t == "NodeEndEvent":
            row += [e.cached]
        elif t == "NodeErrorEvent":
            row += [e.error, e.error_type]
        elif t == "RouteDecisionEvent":
            row += [repr(e.decision)]
        out.append(tuple(row))
    return out


def span_tree_violations(log, *, top_status=None, run_status=None, rejected=False, expect_shutdown=True):
    """Well-nested span tree check over one processor's stream (DESIGN C12 O).

    top_status: 'completed' | 'failed' | None (not judged, e.g. paused) as observed by the caller.
    run_status: optional {run_id: status} for runs whose RunResult the caller holds (map items).
    """
    v = []
    events = [e for e in log if e != "shutdown"]
    n_shut = sum(1 for e in log if e == "shutdown")
    if rejected:
        if log:
            v.append(("rejected-call-emitted", f"a rejected call emitted {len(events)} events / {n_shut} shutdowns"))
        return v
    if expect_shutdown:
        if n_shut != 1:
            v.append(("shutdown-count", f"shutdown invoked {n_shut} times for one top-level call"))
        elif log[-1] != "shutdown":
            v.append(("shutdown-not-last", "shutdown was not the last thing delivered (events after shutdown)"))
    idx = {id(e): i for i, e in enumerate(events)}
    by_run = {}
    for e in events:
        by_run.setdefault(e.run_id, []).append(e)
    spans = {}  # span_id -> dict(kind, open, close, run_id, name, parent)
    for rid, evs in by_run.items():
        starts = [e for e in evs if type(e).__name__ == "RunStartEvent"]
        ends = [e for e in evs if type(e).__name__ == "RunEndEvent"]
        if len(starts) != 1:
            v.append(("run-start-count", f"run {evs[0].graph_name!r}: {len(starts)} RunStart events"))
            continue
        if evs[0] is not starts[0]:
            v.append(("run-start-not-first", f"run {starts[0].graph_name!r}: RunStart is not the first event of its run"))
        if len(ends) != 1:
            v.append(("run-end-count", f"run {starts[0].graph_name!r}: {len(ends)} RunEnd events"))
            close = None
        else:
            if evs[-1] is not ends[0]:
                v.append(("run-end-not-last", f"run {starts[0].graph_name!r}: RunEnd is not the last event of its run ({type(evs[-1]).__name__} follows)"))
            if ends[0].span_id != starts[0].span_id:
                v.append(("run-span-mismatch", "RunEnd span differs from RunStart span"))
            close = idx[id(ends[0])]
            if run_status and rid in run_status and _st(ends[0].status) != run_status[rid]:
                v.append(("run-end-status", f"RunEnd.status={_st(ends[0].status)} but the caller observed {run_status[rid]}"))
        spans[starts[0].span_id] = dict(kind="run", open=idx[id(starts[0])], close=close, run_id=rid, name=starts[0].graph_name, parent=starts[0].parent_span_id, is_map=starts[0].is_map)
    # node spans
    for rid, evs in by_run.items():
        run_span = next((e.span_id for e in evs if type(e).__name__ == "RunStartEvent"), None)
        opened = {}
        for e in evs:
            t = type(e).__name__
            if t == "NodeStartEvent":
                if e.span_id in opened or e.span_id in spans:
                    v.append(("node-span-reused", f"node span opened twice ({e.node_name})"))
                opened[e.span_id] = e
                spans[e.span_id] = dict(kind="node", open=idx[id(e)], close=None, run_id=rid, name=e.node_name, parent=e.parent_span_id, closes=0)
                if e.parent_span_id != run_span:
                    v.append(("node-parent", f"NodeStart {e.node_name}: parent span is not its run's span"))
            elif t in ("NodeEndEvent", "NodeErrorEvent"):
                s = spans.get(e.span_id)
                if s is None or s["kind"] != "node" or s["run_id"] != rid:
                    v.append(("node-close-without-start", f"{t} {e.node_name} closes a span that was never opened in this run"))
                    continue
                s["closes"] += 1
                if s["closes"] > 1:
                    v.append(("node-closed-twice", f"node span of {e.node_name} closed {s['closes']} times"))
                s["close"] = idx[id(e)]
                if s["name"] != e.node_name:
                    v.append(("node-span-name", f"span opened by {s['name']} closed by {e.node_name}"))
            elif t == "CacheHitEvent":
                s = spans.get(e.span_id)
                if s is None or s["kind"] != "node" or s["name"] != e.node_name or s["close"] is not None:
                    v.append(("cache-hit-outside-node", f"CacheHit for {e.node_name} not inside that node's open span"))
            elif t == "RouteDecisionEvent":
                if e.parent_span_id != run_span:
                    v.append(("route-decision-parent", f"RouteDecision {e.node_name}: parent is not its run's span"))
                if not any(s["kind"] == "node" and s["run_id"] == rid and s["name"] == e.node_name and s["close"] is None and s["open"] < idx[id(e)] for s in spans.values()):
                    v.append(("route-decision-outside-node", f"RouteDecision for {e.node_name} outside that node's open span"))
        for sid, e in opened.items():
            if spans[sid]["close"] is None:
                v.append(("node-span-left-open", f"NodeStart {e.node_name} never closed by NodeEnd/NodeError"))
    # containment
    tops = [s for s in spans.values() if s["kind"] == "run" and s["parent"] is None]
    if len(tops) != 1:
        v.append(("top-level-runs", f"{len(tops)} parentless runs in the stream of one top-level call"))
    for sid, s in spans.items():
        p = s["parent"]
        if p is None:
            continue
        ps = spans.get(p)
        if ps is None:
            v.append(("unknown-parent", f"{s['kind']} span {s['name']}: parent span does not exist"))
            continue
        if not (ps["open"] < s["open"]):
            v.append(("opened-before-parent", f"{s['kind']} {s['name']} opened before its parent {ps['name']}"))
        if ps["close"] is not None and (s["close"] is None or s["close"] > ps["close"]):
            v.append(("closed-after-parent", f"{s['kind']} {s['name']} closed after its parent {ps['kind']} {ps['name']} (children must close first)"))
        if ps["close"] is not None and s["open"] > ps["close"]:
            v.append(("opened-after-parent-closed", f"{s['kind']} {s['name']} opened after its parent closed"))
        if s["kind"] == "run":
            if ps["kind"] == "node":
                if ps["name"] != s["name"]:
                    v.append(("nested-run-wrong-parent", f"nested run of graph {s['name']!r} is parented to node {ps['name']!r}"))
            elif ps["kind"] == "run":
                if not ps.get("is_map"):
                    v.append(("run-parented-to-plain-run", f"run {s['name']!r} parented directly to a non-map run"))
                elif ps["name"] != s["name"]:
                    v.append(("map-item-wrong-parent", f"map item run of {s['name']!r} parented to map run of {ps['name']!r}"))
    if top_status is not None and len(tops) == 1:
        rid = tops[0]["run_id"]
        ends = [e for e in by_run[rid] if type(e).__name__ == "RunEndEvent"]
        if ends and _st(ends[0].status) != top_status:
            v.append(("run-end-status", f"top-level RunEnd.status={_st(ends[0].status)} but the caller observed {top_status}"))
        if events and events[0].run_id != rid:
            v.append(("first-event-not-top-run", "the first event does not belong to the top-level run"))
        if ends and events[-1] is not ends[0]:
            v.append(("top-run-end-not-last", "events were delivered after the top-level RunEnd"))
    return v
