"""Explicit-state exploration of the real scheduler under a nondeterministic environment (DESIGN 3.3).

Gates answer any value their declaration admits, data nodes answer 'new value' or 'same value as last
time'; the run is cut when a superstep boundary reaches an already-expanded abstract state.
"""
from __future__ import annotations

from .dsl import H, execute
from .explorer import explore


def _cmp(a, b):
    return (a > b) - (a < b)


def state_key(graph, state, extra=()):
    """Abstract scheduler state: everything get_ready_nodes / the superstep read, minus absolute versions."""
    rows = []
    for node in graph._nodes.values():
        last = state.node_executions.get(node.name)
        if last is None:
            rows.append((node.name, None))
        else:
            rows.append(
                (
                    node.name,
                    tuple(_cmp(state.get_version(p), last.input_versions.get(p, 0)) for p in node.inputs),
                    tuple(_cmp(state.get_version(w), last.wait_for_versions.get(w, 0)) for w in node.wait_for),
                )
            )
    dec = tuple(sorted((g, repr(d)) for g, d in state.routing_decisions.items()))
    return (tuple(sorted(state.values)), tuple(rows), dec, extra)


def explore_nd(prog, inputs, runner, *, horizon, acc, case_key, judge, monitor_extra=None, bound=None, suspend=False, invalid_menu=False, max_execs=20000, prune=True, fault=None, run_kw=None):
    """Explore every environment answer (and, for the async runner, completion orders within ``bound``)
    of one program to closure (state pruning) or to ``horizon`` supersteps.  ``judge(x)`` -> [(sig, msg)]."""
    seen = set() if prune else None
    stats = {}
    nexec = 0

    def run(ch):
        h = H(ch, suspend=suspend, invalid_menu=invalid_menu, fault=fault)

        def hook(tok, state):
            if tok.depth == 0:
                extra = monitor_extra(h) if monitor_extra else ()
                ch.visit(state_key(tok.graph, state, extra))

        h.step_hook = hook
        return execute(prog, inputs, runner=runner, chooser=ch, h=h, max_iterations=horizon, error_handling="continue", **(run_kw or {}))

    for ch, x in explore(run, bound=bound, max_execs=max_execs, seen=seen, stats=stats, free_kinds=("env",)):
        nexec += 1
        acc.evaluations += 1
        acc.traces += 1
        top = [t for t in x.h.steps if t.depth == 0]
        acc.transitions += len(top)
        for sig, msg in judge(x):
            acc.violation(sig, {"case": case_key, "program": prog, "inputs": inputs, "runner": runner, "horizon": horizon, "choices": ch.choices, "suspend": suspend, "invalid_menu": invalid_menu}, msg, size=len(repr(prog)) + 5 * len(ch.choices))
        yield ch, x
    if seen is not None:
        for k in seen:
            acc.state((case_key, runner, k))
    if stats.get("cap_hit"):
        acc.caps.append({"case": case_key, "runner": runner, "cap": max_execs, "unexplored_prefixes": stats["cap_left"]})
