"""Exhaustive program enumerators with canonical forms (DESIGN 3.2)."""
from __future__ import annotations

import itertools

NODE_IDS = ["na", "nb", "nc", "nd", "ne", "nf"]


def out_name(j, k):
    return f"{NODE_IDS[j][1]}{k}"


def dag_shapes(N, P, O, E, min_nodes=None):
    """All gate-free DAG shapes with exactly N nodes in canonical topological order.

    A shape is a list of (params, n_outs): params is a sorted tuple of distinct names, each an earlier
    node's output ('a0') or an external input ('e0'); externals are numbered by first use.
    """

    def rec(j, nodes, avail_outs, n_ext):
        if j == N:
            yield list(nodes)
            return
        # candidate names: earlier outputs, used externals, and the next fresh externals (in order)
        for n_params in range(0, P + 1):
            max_new = min(E - n_ext, n_params)
            for new_ext in range(0, max_new + 1):
                olds = avail_outs + [f"e{i}" for i in range(n_ext)]
                n_old = n_params - new_ext
                for combo in itertools.combinations(olds, n_old):
                    params = tuple(sorted(combo + tuple(f"e{n_ext + i}" for i in range(new_ext))))
                    for n_out in range(0, O + 1):
                        outs = [out_name(j, k) for k in range(n_out)]
                        nodes.append((params, n_out))
                        yield from rec(j + 1, nodes, avail_outs + outs, n_ext + new_ext)
                        nodes.pop()

    yield from rec(0, [], [], 0)


def shape_names(shape):
    """(externals, consumed_outputs, all_outputs) of a shape."""
    exts, consumed, outs = [], [], []
    for j, (params, n_out) in enumerate(shape):
        for p in params:
            if p.startswith("e"):
                if p not in exts:
                    exts.append(p)
            elif p not in consumed:
                consumed.append(p)
        outs += [out_name(j, k) for k in range(n_out)]
    return exts, consumed, outs


EXT_MENU_FULL = [frozenset(s) for r in (1, 2, 3) for s in itertools.combinations("DBP", r)]
EXT_MENU_QUICK = [frozenset("P"), frozenset("D"), frozenset("BP"), frozenset("DBP")]


def dag_program(shape, ext_src, out_default, order=None, is_async=False, name=None):
    """Instantiate a shape: ext_src maps external -> subset of 'DBP'; out_default = set of consumed
    output names whose consumers carry a signature default.  Returns (program, provided)."""
    nodes = []
    for j, (params, n_out) in enumerate(shape):
        defaults = {}
        for p in params:
            if p.startswith("e"):
                if "D" in ext_src[p]:
                    defaults[p] = ["dflt", p]
            elif p in out_default:
                defaults[p] = ["dflt", p]
        ps = [p for p in params if p not in defaults] + [p for p in params if p in defaults]
        spec = {"id": NODE_IDS[j], "kind": "fn", "params": ps, "defaults": defaults, "outs": [out_name(j, k) for k in range(n_out)]}
        if is_async:
            spec["async"] = True
        nodes.append(spec)
    prog = {"nodes": nodes}
    if name:
        prog["name"] = name
    bind = {e: ["bound", e] for e, s in ext_src.items() if "B" in s}
    if bind:
        prog["bind"] = bind
    if order is not None:
        prog["order"] = list(order)
    provided = {e: ["prov", e] for e, s in ext_src.items() if "P" in s}
    return prog, provided


def source_assignments(shape, menu, default_on_outputs=True):
    exts, consumed, _ = shape_names(shape)
    ext_opts = [menu] * len(exts)
    out_opts = [(False, True) if default_on_outputs else (False,)] * len(consumed)
    for es in itertools.product(*ext_opts):
        for od in itertools.product(*out_opts):
            yield dict(zip(exts, es)), {c for c, d in zip(consumed, od) if d}


def orders(n, mode):
    if mode == "all":
        return list(itertools.permutations(range(n)))
    ident = tuple(range(n))
    res = [ident]
    rev = tuple(reversed(ident))
    if rev != ident:
        res.append(rev)
    if mode == "rot":
        for r in range(1, n):
            rot = ident[r:] + ident[:r]
            if rot not in res:
                res.append(rot)
    return res


def ancestors(shape):
    """node index -> set of ancestor node indices (through consumed outputs)."""
    prod = {}
    for j, (_, n_out) in enumerate(shape):
        for k in range(n_out):
            prod[out_name(j, k)] = j
    anc = []
    for j, (params, _) in enumerate(shape):
        s = set()
        for p in params:
            if p in prod:
                s.add(prod[p])
                s |= anc[prod[p]]
        anc.append(s)
    return anc, prod
