"""C01 - acyclic dataflow equals dependency-order evaluation (DESIGN 4, C01)."""
from __future__ import annotations

import itertools

from .. import templates as T
from ..dsl import H, build, canon, jsonable, run_async, run_sync
from ..evidence import Acc
from ..progen import EXT_MENU_FULL, EXT_MENU_QUICK, NODE_IDS, ancestors, dag_program, dag_shapes, orders, out_name, shape_names, source_assignments
from ..refsem import eval_dag

PID = "C01"
LEVEL = "exploration"
RULE = (
    "exhaustive enumeration of gate-free DAG shapes (N nodes, <=P params, <=O outputs per node, <=E external inputs; "
    "canonical topological order, externals numbered by first use) x source assignment per name (external: non-empty subset of "
    "{signature default, bound, provided}; upstream-fed name: default yes/no) x node-list orders x {sync, async} x omission of "
    "inputs made unnecessary by a run-time select. distinct_nontrivial = distinct (shape, assignment, order, runner, omission) "
    "keys with >=2 nodes or a non-provided source."
)
ASSUMPTIONS = [
    "values are symbolic provenance terms; input values themselves are opaque tokens (precedence is value independent)",
    "'exactly once' is demanded outside the descendant closure of nodes that carry a signature default on an upstream-fed parameter (DESIGN C01 S)",
    "bindings are placed on external inputs only (binding an intermediate output is value injection, see C08)",
]

BOUNDS = {
    "quick": [dict(N=1, P=2, O=2, E=2, menu="full", orders="all"), dict(N=2, P=2, O=2, E=2, menu="full", orders="all"), dict(N=3, P=2, O=2, E=2, menu="quick", orders="rev", slice=16)],
    "thorough": [
        dict(N=1, P=2, O=2, E=2, menu="full", orders="all"),
        dict(N=2, P=2, O=2, E=2, menu="full", orders="all"),
        dict(N=3, P=2, O=2, E=2, menu="full", orders="all"),
        dict(N=4, P=2, O=1, E=1, menu="quick", orders="rot"),
    ],
}
NSHARDS = 64


def shards(tier, seed):
    out = []
    for bi, b in enumerate(BOUNDS[tier]):
        n = 1 if b["N"] == 1 else NSHARDS
        for s in range(n):
            out.append((tier, seed, bi, s, n))
    return out


def _structural_desc(shape):
    anc, prod = ancestors(shape)
    return anc, prod


def renamed_form(prog):
    """The same program with every function node DERIVED instead of defined: the function is written with its parameter
    names permuted (rotation; a single parameter gets a fresh definition name), the node is used once (cached lookup
    tables filled) and then renamed back in ONE with_inputs batch (a swap / rotation: the new names overlap the old
    ones).  Call-log arguments are recorded under the logical names, so the flat reference applies unchanged."""
    import copy as _copy

    p = _copy.deepcopy(prog)
    for s in p["nodes"]:
        P = list(s.get("params", []))
        if s["kind"] != "fn" or not P:
            continue
        sigma = {q: q + "_d" for q in P} if len(P) == 1 else {q: P[(i + 1) % len(P)] for i, q in enumerate(P)}
        d = s.get("defaults", {})
        s["defaults"] = {sigma[q]: v for q, v in d.items()}
        s["params"] = [sigma[q] for q in P if q not in d] + [sigma[q] for q in P if q in d]
        s["arg_alias"] = {sigma[q]: q for q in P}
        s["rename_in_chain"] = [{sigma[q]: q for q in P}]
    return p


def check_program(prog, provided, select, runner, ref_prog=None, graph_select=None):
    """Run one program on the implementation and compare with the reference.  Returns [(sig, msg)].
    ``ref_prog``: the flat program the reference evaluates when ``prog`` is a nested form of it."""
    out = []
    run_prog = prog
    prog = ref_prog or prog
    ref_values, ref_calls, unsat = eval_dag(prog, provided)
    exp_values = ref_values if select is None else {k: v for k, v in ref_values.items() if k in select}
    if graph_select is not None:
        exp_values = {k: v for k, v in exp_values.items() if k in graph_select}
    h = H()
    try:
        g = build(run_prog, h)
    except Exception as e:  # noqa: BLE001
        return [({"symptom": "build-exception", "type": type(e).__name__}, f"valid program rejected at construction: {type(e).__name__}: {e}")]
    inputs = {k: canon(v) for k, v in provided.items()}
    kw = {}
    if select is not None:
        kw["select"] = list(select)
    try:
        if runner == "sync":
            res = run_sync(g, inputs, h, **kw)
        else:
            res = run_async(g, inputs, h, None, **kw)
    except Exception as e:  # noqa: BLE001
        return [({"symptom": "run-exception", "runner": runner, "type": type(e).__name__}, f"run raised {type(e).__name__}: {e}")]
    if res.status.value != "completed":
        out.append(({"symptom": "status", "runner": runner, "status": res.status.value}, f"status {res.status.value} error={res.error!r}"))
        return out
    got = dict(res.values)
    if got != exp_values:
        missing = sorted(set(exp_values) - set(got))
        extra = sorted(set(got) - set(exp_values))
        wrong = sorted(k for k in got if k in exp_values and got[k] != exp_values[k])
        kind = "missing" if missing else ("extra" if extra else "wrong")
        out.append(
            (
                {"symptom": "values-" + kind, "runner": runner},
                f"values differ from dependency-order evaluation: missing={missing} extra={extra} wrong={wrong} "
                f"got={jsonable({k: got[k] for k in wrong[:1]})} expected={jsonable({k: exp_values[k] for k in wrong[:1]})}",
            )
        )
    by_node = {}
    for c in h.calls:
        by_node.setdefault(c.nid, []).append(c)
    # nodes allowed to run more than once: descendant closure of early-capable nodes
    prod = {}
    for spec in prog["nodes"]:
        for o in spec.get("outs", []):
            prod[o] = spec["id"]
    early = set()
    for spec in prog["nodes"]:
        if any(p in prod and p in spec.get("defaults", {}) for p in spec.get("params", [])):
            early.add(spec["id"])
    closure = set(early)
    changed = True
    while changed:
        changed = False
        for spec in prog["nodes"]:
            if spec["id"] in closure:
                continue
            if any(prod.get(p) in closure for p in spec.get("params", [])):
                closure.add(spec["id"])
                changed = True
    for spec in prog["nodes"]:
        nid = spec["id"]
        calls = by_node.get(nid, [])
        if nid in unsat:
            if calls:
                out.append(({"symptom": "unsatisfiable-node-ran", "runner": runner}, f"node {nid} has unsatisfiable inputs but was invoked with {jsonable(calls[0].args)}"))
            continue
        if not calls:
            out.append(({"symptom": "node-not-run", "runner": runner}, f"satisfiable node {nid} never ran"))
            continue
        if calls[-1].args != ref_calls[nid]:
            bad = sorted(p for p in ref_calls[nid] if calls[-1].args.get(p) != ref_calls[nid][p])
            p = bad[0] if bad else "?"
            g_src = calls[-1].args.get(p)
            e_src = ref_calls[nid].get(p)
            out.append(
                (
                    {"symptom": "argument", "runner": runner, "expected_source": _src(e_src), "got_source": _src(g_src)},
                    f"node {nid} parameter {p}: got {jsonable(g_src)} expected {jsonable(e_src)}",
                )
            )
        if nid not in closure and len(calls) != 1:
            out.append(({"symptom": "invocation-count", "runner": runner}, f"node {nid} ran {len(calls)} times (expected exactly once)"))
        for a, b in zip(calls, calls[1:]):
            if a.args == b.args:
                out.append(({"symptom": "repeated-identical-invocation", "runner": runner}, f"node {nid} ran twice in a row with identical arguments"))
                break
    return out


def _src(v):
    if isinstance(v, tuple) and v and v[0] in ("dflt", "bound", "prov"):
        return v[0]
    if v is None:
        return "none"
    return "upstream"


def _omissions(shape, ext_src):
    """Yield (omit, select): inputs only provided (no default, not bound) that a run-time select makes unnecessary."""
    exts, _, outs = shape_names(shape)
    ponly = [e for e in exts if ext_src[e] == frozenset("P")]
    anc, prod = ancestors(shape)
    yield frozenset(), None
    for r in range(1, len(ponly) + 1):
        for omit in itertools.combinations(ponly, r):
            om = set(omit)
            tainted = set()
            for j, (params, _) in enumerate(shape):
                if om & set(params) or any(a in tainted for a in anc[j]):
                    tainted.add(j)
            sel = [out_name(j, k) for j, (_, n_out) in enumerate(shape) if j not in tainted for k in range(n_out)]
            if sel and tainted:
                yield frozenset(om), sel


def explicit_edge_chains(acc):
    """Acyclic graphs built with explicit edges whose nodes consume and RE-PRODUCE one name (load -> clean -> upper, all on 'text'):
    the declared topology is a chain, so the output is the composition in chain order (dependency-order evaluation along the
    declared edges); every node runs exactly once.  Chain lengths 2-3, edge tuples with and without the value name, every
    node-list order, both runners."""
    from ..dsl import run_async, run_sync

    for n in (2, 3):
        for named in (False, True):
            for perm in itertools.permutations(range(n)):
                for runner in ("sync", "async"):
                    ids = ["c0", "c1", "c2"][:n]
                    nodes = [T.fn(ids[0], ["seed"], ["text"])] + [T.fn(i, ["text"], ["text"]) for i in ids[1:]]
                    edges = [[ids[k], ids[k + 1]] + (["text"] if named else []) for k in range(n - 1)]
                    prog = T.set_async(T.prog([nodes[i] for i in perm], edges=edges), runner == "async")
                    h = H()
                    w = {"explicit_edge_chains": True}
                    try:
                        g = build(prog, h)
                        res = run_sync(g, {"seed": ("prov", "seed")}, h) if runner == "sync" else run_async(g, {"seed": ("prov", "seed")}, h, None)
                    except Exception as e:  # noqa: BLE001
                        acc.violation({"symptom": "run-exception", "feature": "explicit-edges-chain-reproducing-one-name"}, w, f"explicit-edge chain of {n} nodes on one name ({runner}, order {perm}): {type(e).__name__}: {str(e)[:150]}")
                        continue
                    acc.evaluations += 1
                    acc.key(("explicit-edge-chain", n, named, perm, runner))
                    exp = ("prov", "seed")
                    for k, i in enumerate(ids):
                        exp = (i, 0, ((("seed" if k == 0 else "text"), exp),))
                    got = res.values.get("text")
                    counts = {i: sum(1 for c in h.calls if c.nid == i) for i in ids}
                    if res.status.value != "completed" or got != exp or any(v != 1 for v in counts.values()):
                        acc.violation(
                            {"symptom": "values-wrong", "feature": "explicit-edges-chain-reproducing-one-name"},
                            w,
                            f"explicit edges {edges} over nodes that each consume and re-produce 'text' ({runner}, node order {perm}): result {jsonable(got)} (invocations {counts}), dependency-order evaluation along the declared chain gives {jsonable(exp)} with one invocation each",
                            size=n,
                        )


def run_shard(shard):
    tier, seed, bi, s, n = shard
    b = BOUNDS[tier][bi]
    acc = Acc()
    if bi == 0 and s == 0:
        # each nested graph gets the values addressed to ITS inputs: sibling nested graphs binding one name differently
        from . import c05

        c05.sibling_bindings(acc)
        explicit_edge_chains(acc)
    menu = EXT_MENU_FULL if b["menu"] == "full" else EXT_MENU_QUICK
    ords = orders(b["N"], {"all": "all", "rev": "rev", "rot": "rot"}[b["orders"]])
    sl = b.get("slice")
    for idx, shape in enumerate(dag_shapes(b["N"], b["P"], b["O"], b["E"])):
        if idx % n != s:
            continue
        ai = 0
        for ext_src, out_default in source_assignments(shape, menu):
            ai += 1
            # quick tier at N=3: every shape, a rotating 1/slice of its assignments (all slices = thorough tier)
            if sl and (ai + idx + seed) % sl != 0:
                continue
            none_nodes = [j for j, (_, n_out) in enumerate(shape) if n_out == 1 and any(out_name(j, 0) in ps for ps, _ in shape)]
            variants = [(omit, select, order, False) for omit, select in _omissions(shape, ext_src) for order in ords]
            if none_nodes:
                variants.append((frozenset(), None, ords[0], "none"))  # consumed single outputs carry the value None
                variants.append((frozenset(), None, ords[0], "tuple1"))  # ... or a 1-tuple / empty tuple (must not be unpacked)
            variants.append((frozenset(), None, ords[0], "falsy"))  # defaults are None, bound values '' / (), run-time values 0
            variants.append((frozenset(), None, ords[0], "generators"))  # every single-output node is a (sync / async) generator node
            for omit, select, order, none_variant in variants:
                if True:
                    for runner in ("sync", "async"):
                        prog, provided = dag_program(shape, ext_src, out_default, order, is_async=(runner == "async"))
                        if none_variant == "generators":
                            for sp in prog["nodes"]:
                                if len(sp.get("outs", [])) <= 1:
                                    sp["gen"] = True  # (also side-effect-only nodes: their body must still run)
                            acc.counters["runs_with_generator_nodes"] += 1
                        elif none_variant == "falsy":
                            for sp in prog["nodes"]:
                                sp["defaults"] = {q: None for q in sp.get("defaults", {})}
                            if prog.get("bind"):
                                prog["bind"] = {q: ("" if i % 2 == 0 else None) for i, q in enumerate(sorted(prog["bind"]))}
                            provided = {q: 0 for q in provided}
                            acc.counters["runs_with_falsy_sources"] += 1
                        elif none_variant:
                            for jj, j in enumerate(none_nodes):
                                prog["nodes"][j]["behav"] = {"const": None} if none_variant == "none" else {"const": [["one", j]] if jj % 2 == 0 else []}
                            acc.counters[f"runs_with_special_valued_outputs[{none_variant}]"] += 1
                        prov = {k: v for k, v in provided.items() if k not in omit}
                        acc.evaluations += 1
                        key = (tuple(shape), tuple(sorted((k, "".join(sorted(v))) for k, v in ext_src.items())), tuple(sorted(out_default)), order, runner, tuple(sorted(omit)), none_variant)
                        if b["N"] >= 2 or any(v != frozenset("P") for v in ext_src.values()):
                            acc.key(key)
                        vs = check_program(prog, prov, select, runner)
                        acc.outcomes["ok" if not vs else vs[0][0]["symptom"]] += 1
                        if omit:
                            acc.counters["runs_with_unsatisfiable_nodes"] += 1
                        if out_default:
                            acc.counters["runs_with_default_on_upstream_fed_param"] += 1
                        if acc.evaluations % 5000 == 1:
                            acc.sample({"program": prog, "provided": jsonable(prov), "select": select, "runner": runner})
                        for sig, msg in vs:
                            acc.violation(sig, {"program": prog, "provided": jsonable(prov), "select": select, "runner": runner}, msg)
                        # the same acyclic graph with its first consumer of a bound input wrapped as a nested graph whose own
                        # binding differs: the enclosing graph's binding is the one in force (bound value precedence through nesting)
                        if not omit and not none_variant and order == ords[0]:
                            rf = renamed_form(prog)
                            acc.evaluations += 1
                            acc.counters["runs_with_nodes_derived_by_rename_after_use"] += 1
                            for sig, msg in check_program(rf, prov, select, runner, ref_prog=prog):
                                acc.violation({**sig, "derived_nodes": True}, {"program": rf, "ref_program": prog, "provided": jsonable(prov), "select": select, "runner": runner}, "nodes derived by a one-batch rename after use: " + msg)
                        bound_exts = [e for e, srcs in ext_src.items() if "B" in srcs and "D" not in srcs]  # (default + inner binding is judged by C05)
                        if bound_exts and not omit and not none_variant and order == ords[0]:
                            from . import c05

                            e0_ = bound_exts[0]
                            j = next(jj for jj, (ps, _) in enumerate(shape) if e0_ in ps)
                            nested = c05.wrap(prog, [prog["nodes"][j]["id"]], "w1")
                            wn = next(sp for sp in nested["nodes"] if sp["id"] == "w1")
                            wn["inner"]["bind"] = {e0_: ["bound-inner", e0_]}
                            acc.evaluations += 1
                            acc.counters["runs_nested_with_inner_and_outer_binding"] += 1
                            for sig, msg in check_program(nested, prov, None, runner, ref_prog=prog):
                                acc.violation({**sig, "nested": True}, {"program": nested, "ref_program": prog, "provided": jsonable(prov), "select": None, "runner": runner}, "nested form with an inner binding of the same name: " + msg)
                            # ... and with the binding living ONLY on the inner graph (same token), the enclosing graph carrying a
                            # graph-level select that leaves the wrapper's outputs out: the wrapper still runs, with the inner binding
                            if sum(1 for ps, _ in shape if e0_ in ps) == 1 and "P" not in ext_src[e0_]:
                                import copy as _copy

                                n2 = _copy.deepcopy(nested)
                                w2 = next(sp for sp in n2["nodes"] if sp["id"] == "w1")
                                w2["inner"]["bind"] = {e0_: prog["bind"][e0_]}
                                n2["bind"] = {k: v for k, v in prog["bind"].items() if k != e0_}
                                if not n2["bind"]:
                                    del n2["bind"]
                                others = [o for sp in prog["nodes"] if sp["id"] != prog["nodes"][j]["id"] for o in sp.get("outs", [])]
                                for gsel in ([None] + ([others] if others else [])):
                                    n3 = _copy.deepcopy(n2)
                                    if gsel is not None:
                                        n3["select"] = list(gsel)
                                    acc.evaluations += 1
                                    acc.counters["runs_nested_with_inner_binding_only" + ("_and_graph_select" if gsel else "")] += 1
                                    for sig, msg in check_program(n3, prov, None, runner, ref_prog=prog, graph_select=gsel):
                                        acc.violation({**sig, "nested": True, "inner_binding_only": True, "graph_select": gsel is not None}, {"program": n3, "ref_program": prog, "provided": jsonable(prov), "select": None, "graph_select": gsel, "runner": runner}, "nested form, binding on the inner graph only" + (", graph-level select excluding the wrapper" if gsel else "") + ": " + msg)
    return acc


def coverage_extra(acc, tier, seed):
    return {"bounds": BOUNDS[tier]}


def replay(rep):
    if rep.get("explicit_edge_chains"):
        a = Acc()
        explicit_edge_chains(a)
        return [v["message"] for v in a.violations.values()]
    if rep.get("sibling_bindings"):
        from . import c05

        a = Acc()
        c05.sibling_bindings(a)
        return [v["message"] for v in a.violations.values()]
    return [m for _, m in check_program(rep["program"], rep["provided"], rep.get("select"), rep["runner"], rep.get("ref_program"), rep.get("graph_select"))]
