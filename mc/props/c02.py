"""C02 - determinism across runner, schedule, concurrency limit and node order (DESIGN 4, C02)."""
from __future__ import annotations

import collections
import itertools

from .. import templates as T
from ..dsl import H, InjectedError, execute, jsonable
from ..evidence import Acc, hk
from ..explorer import explore, run_once
from ..progen import dag_program, dag_shapes, orders, shape_names

PID = "C02"
LEVEL = "model_checking"
RULE = (
    "for every program (all DAG shapes within bounds with every node async and one suspension point per body; gated, cyclic, nested and "
    "mapped templates) and every fault set (no fault, each single node failing, each pair): one synchronous reference run, then EVERY "
    "completion order of the asynchronous run under the virtual loop (deviation-bounded DFS over 'sched' points) x max_concurrency in "
    "{None,1,2,3} x node-list permutations; outcomes compared differentially, snapshot isolation checked on every execution. "
    "states = distinct (program, config, released-set, pending-set) scheduler frontiers; transitions = scheduling decisions executed."
)
TECHNIQUE = "stateless model checking of the async superstep runner under a virtual event loop: every completion order of suspended node bodies (deviation-bounded DFS), differential against the sync runner"
LEVEL_TEXT = (
    "all interleavings of node-body completion (quick: <=2 deviations from FIFO; thorough: all) for every small program, fault set, "
    "concurrency limit and node-list order are executed on the real AsyncRunner and compared with the SyncRunner; snapshot isolation is "
    "checked on every execution. Exhaustive inside the bounds; larger fan-outs than 4 bodies per step are not explored."
)
LEVEL_NOTE = 'virtual loop owns scheduling (mc/vloop.py); one suspension point per node body; asyncio FIFO ready order kept; bounds and caps in evidence; also: every node-list permutation of eight deterministic cyclic / signal / gated programs (FIFO and LIFO completion), iteration caps at need-1 / need / need+1'
ASSUMPTIONS = [
    "schedule nondeterminism = order in which suspended node bodies complete (one suspension point per body); asyncio's FIFO ready queue is kept",
    "values are provenance terms; loop templates use small integers",
    "failing runs are compared with error_handling='continue' (error identity by injected (node, invocation); partial values sync subset of async)",
]

CONC = [None, 1, 2, 3]


def _dag_cases(N, P, O, E, order_mode, with_defaults):
    for shape in dag_shapes(N, P, O, E):
        exts, consumed, outs = shape_names(shape)
        if not outs:
            continue
        ext_src = {e: frozenset("P") for e in exts}
        variants = [set()]
        if with_defaults and consumed:
            variants.append(set(consumed))
        for od in variants:
            prog, provided = dag_program(shape, ext_src, od)
            yield ("dag", prog, provided, orders(N, order_mode))


def _template_cases():
    ins = {"e0": ["prov", "e0"]}
    for do in (True, False):
        for dec in (True, False):
            p = T.diamond_ifelse(do)
            p["nodes"][1]["behav"] = {"seq": [dec]}
            yield ("diamond", p, ins, [None, [4, 3, 2, 1, 0]])
        for dec in ("p", "pq", "END", None):
            p = T.route3(do)
            p["nodes"][1]["behav"] = {"seq": [dec]}
            yield ("route3", p, ins, [None, [4, 3, 2, 1, 0]])
        for dec in ([], ["p"], ["p", "r"], ["p", "pq", "r"]):
            p = T.multi_route(do)
            p["nodes"][1]["behav"] = {"seq": [dec]}
            yield ("multi", p, ins, [None, [4, 3, 2, 1, 0]])
    for d1 in (True, False):
        for d2 in ("t", "v", None):
            for o1, o2 in ((True, False), (False, False), (True, True)):
                p = T.two_gates_shared_target(o1, o2)
                p["nodes"][1]["behav"] = {"seq": [d1]}
                p["nodes"][2]["behav"] = {"seq": [d2]}
                yield ("shared-target", p, ins, [None, [5, 4, 3, 2, 1, 0], [0, 2, 1, 3, 4, 5]])
    for lim in (0, 1, 3):
        for gk in ("route", "ifelse"):
            for ex in (False, True):
                p = T.counter_loop(lim, True, gk, ex)
                n = len(p["nodes"])
                yield ("loop", p, {"count": 0}, [None, list(range(n - 1, -1, -1))])
    same = T.prog(
        [
            T.fn("draft", ["e0"], ["text", "outline"]),
            T.fn("refine", ["e0", "outline"], ["text"], defaults={"outline": ["dflt", "outline"]}),
            T.fn("snap", ["text"], ["s0"]),
        ]
    )
    yield ("same-name-ordered-producers", same, ins, [None])
    yield ("nested", T.nested_fanout(), ins, [None, [3, 2, 1, 0]])
    yield ("nested2", T.nested_depth(2), {"x": ["prov", "x"]}, [None])
    yield ("two-nested", T.two_nested(), {"x": ["prov", "x"]}, [None, [2, 1, 0]])
    for mode in ("zip",):
        p = T.mapped_node(mode)
        yield ("mapped", p, {"e0": ["prov", "e0"], "x": [["i", 0], ["i", 1], ["i", 2]]}, [None, [2, 1, 0]])
    p = T.mapped_node("product", two_params=True)
    yield ("mapped-product", p, {"e0": ["prov", "e0"], "x": [["i", 0], ["i", 1]], "w": [["w", 0], ["w", 1]]}, [None])
    # a mapping node whose cloned broadcast input is renamed on the wrapper and mutated by the inner function
    inner = T.prog([T.fn("mb", ["x", "cfg"], ["b0"], behav={"py": "(cfg.append(x), tuple(cfg))[1]"})], name="item")
    p = T.prog([T.gnode("item", inner, map_over=["x"], clone=["cfg"], rename_in={"cfg": "cfgs"}), T.fn("md", ["b0"], ["d0"])])
    yield ("mapped-renamed-clone", p, {"x": [["i", 0], ["i", 1], ["i", 2]], "cfgs": {"$list": [["c", 0]]}}, [None])
    # runner.map: one result per item IN INPUT ORDER under every completion order and every worker-pool size
    from . import c15

    yield ("runner.map", c15.map_item_graph(False), {"x": [["i", 0], ["i", 1], ["i", 2], ["i", 3]]}, [None])
    yield ("runner.map", c15.map_item_graph(True), {"x": [["i", 0], ["i", 1], ["i", 2]]}, [None])
    # ... with one ITEM failing in its second step (a fault tied to the item, not to a global invocation index, so that it is
    # the same fault under every schedule), errors raised and errors collected
    import copy as _copy

    fm = _copy.deepcopy(c15.map_item_graph(True))
    fm["nodes"][1]["fail_args"] = {"b0": [["mb", 0, [["x", ["i", 1]]]]]}
    yield ("runner.map", fm, {"x": [["i", 0], ["i", 1], ["i", 2]]}, [None])
    yield ("runner.map-continue", fm, {"x": [["i", 0], ["i", 1], ["i", 2]]}, [None])


FAMILY_EXTRA = {"runner.map": {"method": "map", "map_over": "x"}, "runner.map-continue": {"method": "map", "map_over": "x", "error_handling": "continue"}}


def _cases(tier):
    if tier == "quick":
        for N in (2, 3):
            yield from _dag_cases(N, 2, 1, 1, "all" if N < 3 else "rev", N < 3)
    else:
        for N in (2, 3):
            yield from _dag_cases(N, 2, 2, 2, "all", True)
        yield from _dag_cases(4, 2, 1, 1, "rev", False)
    yield from _template_cases()


def shards(tier, seed):
    n = sum(1 for _ in _cases(tier))
    k = 64 if tier == "quick" else 256
    return [(tier, seed, s, k) for s in range(min(k, n))] + [(tier, seed, "perm", pi) for pi in range(len(list(perm_programs())))]


def _fault_sets(prog, tier, family):
    nids = [s["id"] for s in T.all_specs(prog) if s["kind"] == "fn"]
    yield frozenset()
    if family.startswith("runner.map"):
        return  # (a global invocation index names different items under different schedules: item-bound faults are used instead)
    for n in nids:
        yield frozenset([(n, 0)])
    if family == "dag" or tier == "thorough":
        for a, b in itertools.combinations(nids, 2):
            yield frozenset([(a, 0), (b, 0)])
    if family == "loop":
        yield frozenset([("inc", 1)])
        yield frozenset([("side", 2)])


def _calls(h):
    return collections.Counter((c.nid, repr(sorted(c.args.items()))) for c in h.calls)


def snapshot_violations(h, prog_specs):
    """Every argument received in step s comes from the pre-step snapshot, never from a sibling of that step."""
    out = []
    steps = {(t.run_id, t.step): t for t in h.steps}
    by_step = collections.defaultdict(list)
    for c in h.calls:
        by_step[(c.run_id, c.step)].append(c)
    for key, calls in by_step.items():
        t = steps.get(key)
        if t is None:
            continue
        for c in calls:
            spec = h.specs[c.nid]
            rn = spec.get("rename_in") or {}
            for p, v in c.args.items():
                ext = rn.get(p, p)
                if ext in t.pre_values:
                    if t.pre_values[ext] != v:
                        out.append(f"node {c.nid} step {t.step}: parameter {p} = {jsonable(v)} but pre-step snapshot has {jsonable(t.pre_values[ext])}")
                else:
                    # not in the snapshot: must not be an output produced by a sibling of this very step
                    for o in calls:
                        if o is c or o.ret is None:
                            continue
                        rets = o.ret if isinstance(o.ret, tuple) and o.ret and isinstance(o.ret[0], tuple) else (o.ret,)
                        if any(v is r or (v == r and isinstance(v, tuple)) for r in rets):
                            out.append(f"node {c.nid} step {t.step}: parameter {p} received sibling {o.nid}'s output of the same step")
    return out


def check_case(acc, family, prog, inputs, order, faults, tier, witness_base, base=None, max_iterations=None):
    """Sync reference, then all async schedules x concurrency limits.  ``base`` = (view, calls) of the sync run
    with the identity node order: non-failing runs must agree with it under every node-list order."""
    eh = "continue" if faults else "raise"
    sp = T.set_async(prog, False)
    ap = T.set_async(prog, True)
    if order is not None:
        sp["order"] = list(order)
        ap["order"] = list(order)
    fset = set(faults) if faults else None
    h0 = H(fault=fset)
    extra = dict(FAMILY_EXTRA.get(family, {}))
    eh = extra.pop("error_handling", eh)
    x0 = execute(sp, inputs, runner="sync", h=h0, error_handling=eh, max_iterations=max_iterations, **extra)
    acc.evaluations += 1
    acc.traces += 1
    ref = x0.view()
    ref_calls = _calls(h0)
    if base is not None and not faults and (ref != base[0] or ref_calls != base[1]):
        acc.violation({"symptom": "node-order-dependence"}, {**witness_base, "runner": "sync", "choices": []}, f"sync outcome with node order {order} differs from the identity order: {jsonable(ref)} vs {jsonable(base[0])}")
    for m in snapshot_violations(h0, None):
        acc.violation({"symptom": "snapshot-isolation", "runner": "sync"}, {**witness_base, "runner": "sync", "choices": []}, m)
    bound = 2 if tier == "quick" else None
    for mc in CONC:
        stats = {}

        def run(ch):
            h = H(ch, suspend=True, fault=fset)
            x = execute(ap, inputs, runner="async", chooser=ch, h=h, error_handling=eh, max_concurrency=mc, max_iterations=max_iterations, **extra)
            return x

        for ch, x in explore(run, bound=bound, max_execs=5000, stats=stats):
            acc.evaluations += 1
            acc.traces += 1
            released = []
            for p in ch.points:
                if p[0] == "sched":
                    acc.transitions += 1
                    acc.states.add(hk((witness_base["case"], mc, tuple(sorted(released)), p[1])))
                    released.append(p[1][p[3]])
            w = {**witness_base, "runner": "async", "max_concurrency": mc, "choices": ch.choices, "max_iterations": max_iterations}
            for m in _compare(ref, ref_calls, x, faults):
                acc.violation(m[0], w, m[1], size=len(ch.choices) * 10 + ch.deviations + len(repr(prog)))
            for m in snapshot_violations(x.h, None):
                acc.violation({"symptom": "snapshot-isolation", "runner": "async"}, w, m)
            acc.outcomes[(family, x.status, bool(faults))] += 1
        if stats.get("cap_hit"):
            acc.caps.append({"case": witness_base["case"], "max_concurrency": mc, "cap": 5000, "left": stats["cap_left"]})


def _compare(ref, ref_calls, x, faults):
    out = []
    if x.deadlock or x.horizon:
        return [({"symptom": "deadlock" if x.deadlock else "horizon"}, "async run did not terminate under this schedule")]
    v = x.view()
    if ref[0] in ("completed", "paused", "list"):
        if v != ref:
            out.append(({"symptom": "outcome-differs", "sync": ref[0], "async": v[0]}, f"async outcome {jsonable(v)} differs from sync outcome {jsonable(ref)}"))
        elif _calls(x.h) != ref_calls:
            d = (_calls(x.h) - ref_calls) + (ref_calls - _calls(x.h))
            out.append(({"symptom": "invocations-differ"}, f"multiset of node invocations differs between sync and async: {list(d.items())[:3]}"))
    else:
        if v[0] != ref[0] or v[2] != ref[2]:
            out.append(({"symptom": "error-differs", "sync": str(ref[0]), "async": str(v[0])}, f"failing run: async reports {jsonable((v[0], v[2]))}, sync reports {jsonable((ref[0], ref[2]))}"))
        elif ref[0] == "failed":
            sv, av = dict(ref[1]), dict(v[1])
            bad = [k for k in sv if k not in av or av[k] != sv[k]]
            if bad:
                out.append(({"symptom": "partial-values-not-subset"}, f"partial values of the sync run not returned identically by the async run: {bad}"))
    return out


def run_shard(shard):
    tier, seed, s, k = shard
    acc = Acc()
    if s == "perm":
        perm_shard(acc, k, tier)
        return acc
    for ci, (family, prog, inputs, ords) in enumerate(_cases(tier)):
        if ci % k != s:
            continue
        hb = H()
        xb = execute(T.set_async(prog, False), inputs, runner="sync", h=hb, **{"error_handling": "raise", **FAMILY_EXTRA.get(family, {})})
        base = (xb.view(), _calls(hb))
        for order in ords:
            for faults in _fault_sets(prog, tier, family):
                case = (family, ci, tuple(order) if order else None, tuple(sorted(faults)))
                acc.key(case)
                wb = {"case": jsonable(case), "family": family, "program": prog, "inputs": jsonable(inputs), "order": list(order) if order else None, "faults": sorted(list(f) for f in faults)}
                if len(acc.samples) < 1 and faults:
                    acc.sample(wb)
                check_case(acc, family, prog, inputs, order, faults, tier, wb, base)
                if family == "loop" and not faults and order is None:
                    # the iteration cap at, just below and just above the number of supersteps the run needs
                    need = len([t for t in hb.steps if t.depth == 0])
                    for mi in sorted({max(1, need - 1), need, need + 1}):
                        acc.key((case, "max_iterations", mi))
                        check_case(acc, family, prog, inputs, order, faults, tier, {**wb, "max_iterations": mi}, None, max_iterations=mi)
    return acc


# ---------------------------------------------------------------- node-list permutations of cyclic / signal / gated programs
def perm_programs():
    """Deterministic cyclic programs with ordering signals and gates whose ready sets contain, on RE-execution, a producer together
    with its waiter / a gate together with its target - the situations in which a scan over the node list could let the list
    order leak into the schedule.  Output names are unique (self-accumulators produce their own input only)."""
    cap = "min({} + 1, 4)"
    yield (
        "pingpong-emit-waiter",
        T.prog(
            [
                T.fn("bv", ["u"], ["v"], behav={"py": cap.format("u")}),
                T.fn("bu", ["v"], ["u"], behav={"py": cap.format("v")}),
                T.fn("build", ["u", "v"], ["item"], emit=["tick"], behav={"py": "u + v"}),
                T.fn("obs", ["item", "log"], ["log"], wait_for=["tick"], behav={"py": "log + (item,)"}),
            ]
        ),
        {"u": 0, "log": []},
    )
    yield (
        "pingpong-emit-only-waiter",
        T.prog(
            [
                T.fn("bv", ["u"], ["v"], behav={"py": cap.format("u")}),
                T.fn("bu", ["v"], ["u"], behav={"py": cap.format("v")}),
                T.fn("mark", ["u", "v"], [], emit=["tick"]),
                T.fn("obs", ["u", "log"], ["log"], wait_for=["tick"], behav={"py": "log + (u,)"}),
            ]
        ),
        {"u": 0, "log": []},
    )
    yield (
        "loop-gate-waits-signal-side-waiter",
        T.prog(
            [
                T.fn("step", ["count"], ["count"], emit=["turn"], behav={"py": "count + 1"}),
                T.route("gt", ["count"], ["step", "END"], wait_for=["turn"], behav={"py": "'step' if count < 3 else END"}),
                T.fn("obs", ["count", "log"], ["log"], wait_for=["turn"], behav={"py": "log + (count,)"}),
            ]
        ),
        {"count": 0, "log": []},
    )
    yield (
        "loop-two-body-signal-after",
        T.prog(
            [
                T.fn("gen", ["msgs"], ["resp"], behav={"py": "len(msgs)"}),
                T.fn("acc", ["msgs", "resp"], ["msgs"], behav={"py": "msgs + (resp,)"}),
                T.fn("persist", ["msgs"], [], emit=["saved"]),
                T.route("gt", ["msgs"], ["gen", "END"], wait_for=["saved"], default_open=False, behav={"py": "'gen' if len(msgs) < 3 else END"}),
            ]
        ),
        {"msgs": []},
    )
    yield (
        "loop-waiter-on-data-name",
        T.prog(
            [
                T.fn("refine", ["a"], ["a"], behav={"py": "a + 1"}),
                T.route("gt", ["a"], ["refine", "END"], behav={"py": "'refine' if a < 3 else END"}),
                T.fn("scale", ["a"], ["d"], behav={"py": "a * 10"}),
                T.fn("audit", ["d", "log"], ["log"], wait_for=["a"], behav={"py": "log + (d,)"}),
            ]
        ),
        {"a": 0, "log": []},
    )
    yield (
        "loop-gated-gate",
        T.prog(
            [
                T.fn("inc", ["c"], ["c"], behav={"py": "c + 1"}),
                T.ifelse("outer", ["c"], "inner", "END", behav={"py": "c < 4"}),
                T.route("inner", ["c"], ["inc", "tap"], multi=True, behav={"py": "['inc', 'tap'] if c == 2 else ['inc']"}),
                T.fn("tap", ["c"], ["seen"], behav={"py": "('tap', c)"}),
            ]
        ),
        {"c": 0},
    )
    yield (
        "two-gates-one-target-in-loop",
        T.prog(
            [
                T.fn("inc", ["c"], ["c"], behav={"py": "c + 1"}),
                T.route("g1", ["c"], ["inc", "END"], behav={"py": "'inc' if c < 3 else END"}),
                T.ifelse("g2", ["c"], "show", "END", default_open=False, behav={"py": "c % 2 == 1"}),
                T.fn("show", ["c"], ["seen"], behav={"py": "('show', c)"}),
            ]
        ),
        {"c": 0},
    )
    yield (
        "emitting-gate-late-input",
        T.prog(
            [
                T.fn("wtr", ["x", "z", "log"], ["log"], wait_for=["logged"], behav={"py": "log + ((x, z),)"}),
                T.fn("step", ["x"], ["x"], behav={"py": "x + 1"}),
                T.route("gt", ["x"], ["step", "END"], emit=["logged"], behav={"py": "'step' if x < 3 else END"}),
                T.fn("nc", ["x"], ["y"], behav={"py": "x * 2"}),
                T.fn("nd", ["y"], ["z"], behav={"py": "y + 1"}),
            ]
        ),
        {"x": 0, "log": []},
    )


def perm_shard(acc, pi, tier):
    """Every permutation of the node list (N <= 4: all; N = 5: all 120 in the thorough tier, rotations + reversal + adjacent swaps
    in the quick tier) x both runners (async: FIFO completion and, per permutation, reverse completion) against the identity order."""
    name, prog, inputs = list(perm_programs())[pi]
    n = len(prog["nodes"])
    ident = list(range(n))
    if n <= 4 or tier == "thorough":
        perms = [list(p) for p in itertools.permutations(ident)]
    else:
        perms = [ident[k:] + ident[:k] for k in range(n)] + [ident[::-1]]
        perms += [ident[:k] + [ident[k + 1], ident[k]] + ident[k + 2 :] for k in range(n - 1)]
    hb = H()
    xb = execute(T.set_async(prog, False), inputs, runner="sync", h=hb, max_iterations=60)
    base = (xb.view(), _calls(hb))
    if xb.status != "completed":
        acc.violation({"symptom": "perm-base-not-completed", "program": name}, {"perm_family": pi}, f"{name}: identity-order sync run did not complete: {jsonable(xb.view())}")
        return

    class _Last:
        def choose(self, kind, label, k):
            return k - 1 if kind == "sched" else 0

    for perm in perms:
        for runner, chooser in (("sync", None), ("async", None), ("async-lifo", _Last())):
            pr = T.set_async(prog, runner != "sync")
            pr["order"] = perm
            h = H(chooser, suspend=runner != "sync")
            x = execute(pr, inputs, runner="sync" if runner == "sync" else "async", chooser=chooser, h=h, max_iterations=60)
            acc.evaluations += 1
            acc.traces += 1
            acc.transitions += len(h.steps)
            acc.key(("perm", name, tuple(perm), runner))
            acc.state(("perm", name, tuple(perm)))
            acc.outcomes[("perm", name, x.status)] += 1
            got = (x.view(), _calls(h))
            if got != base:
                what = "outcome" if got[0] != base[0] else "multiset of node invocations"
                d = got[0] if got[0] != base[0] else list(((got[1] - base[1]) + (base[1] - got[1])).items())[:3]
                acc.violation(
                    {"symptom": "node-order-dependence", "program": name, "runner": "sync" if runner == "sync" else "async"},
                    {"perm_family": pi, "program": prog, "inputs": jsonable(inputs), "order": perm, "runner": runner},
                    f"{name}: {runner} {what} with node order {perm} differs from the identity order: {jsonable(d)} (identity: {jsonable(base[0])})",
                    size=sum(1 for a, b in zip(perm, ident) if a != b),
                )
            for m in snapshot_violations(h, None):
                acc.violation({"symptom": "snapshot-isolation", "runner": runner}, {"perm_family": pi, "order": perm, "runner": runner}, m)


def coverage_extra(acc, tier, seed):
    return {
        "deviation_bound_completed": 2 if tier == "quick" else "unbounded",
        "bounds": {"dag": "N<=3,P<=2,O<=1,E<=1" if tier == "quick" else "N<=3,P<=2,O<=2,E<=2 + N=4,P<=2,O<=1,E<=1", "max_concurrency": CONC, "per_case_cap": 5000},
    }


def replay(rep):
    acc = Acc()
    if "perm_family" in rep:
        perm_shard(acc, rep["perm_family"], "thorough")
        return [v["message"] for v in acc.violations.values()]
    prog = rep["program"]
    faults = frozenset(tuple(f) for f in rep["faults"])
    eh = "continue" if faults else "raise"
    sp = T.set_async(prog, False)
    ap = T.set_async(prog, True)
    if rep.get("order"):
        sp["order"] = ap["order"] = rep["order"]
    fset = set(faults) if faults else None
    h0 = H(fault=fset)
    extra = dict(FAMILY_EXTRA.get(rep.get("family"), {}))
    eh = extra.pop("error_handling", eh)
    x0 = execute(sp, rep["inputs"], runner="sync", h=h0, error_handling=eh, max_iterations=rep.get("max_iterations"), **extra)
    msgs = list(snapshot_violations(h0, None))
    if not faults:
        hb = H()
        xb = execute(T.set_async(prog, False), rep["inputs"], runner="sync", h=hb, error_handling=eh, **extra)
        if (xb.view(), _calls(hb)) != (x0.view(), _calls(h0)):
            msgs.append("sync outcome depends on the node-list order")
    if rep["runner"] == "async":
        def run(ch):
            h = H(ch, suspend=True, fault=fset)
            return execute(ap, rep["inputs"], runner="async", chooser=ch, h=h, error_handling=eh, max_concurrency=rep.get("max_concurrency"), max_iterations=rep.get("max_iterations"), **extra)

        ch, x = run_once(run, rep["choices"])
        msgs += [m for _, m in _compare(x0.view(), _calls(h0), x, faults)]
        msgs += snapshot_violations(x.h, None)
    return msgs
