"""C03 - gate routing: a gated node runs only while a controlling gate selects it (DESIGN 4, C03)."""
from __future__ import annotations

import copy

from .. import templates as T
from ..dsl import jsonable
from ..evidence import Acc
from ..explorer import run_once
from ..nd import explore_nd

PID = "C03"
BOTH_CONSTRUCTION_PATHS = True  # every program once with constructor-built and once with decorator-built nodes (mc/dsl.py VIA)
LEVEL = "model_checking"
TECHNIQUE = "explicit-state model checking of the real scheduler with nondeterministic gate functions (every admissible decision at every evaluation) and nondeterministic data nodes, state pruning at superstep boundaries, gate trace monitor on every execution"
LEVEL_TEXT = (
    "for every gated program of the alphabet (if/else and route gates incl. END / None / fallback / multi-target, default-open and closed, gate "
    "and targets runnable together or not, two gates sharing a target, a gate that is the target of another gate, gates inside cycles and "
    "inside a nested graph) every sequence of gate decisions and of 'new/same value' answers is explored on the real runners to closure of "
    "the abstract state graph (or the stated horizon); a monitor with its own view of the decisions checks on every step that a target starts "
    "only when selected (or while a default-open gate is undecided), never in its gate's own step, that invalid decisions fail the run, and "
    "for DAG programs that exactly the selected branches ran."
)
LEVEL_NOTE = "pruning key = (names present, per-input version comparison signs, routing decisions, executed set, monitor's decision view); justified in DESIGN 3.3, cross-checked unpruned in the thorough tier; every program on both construction paths (node classes and public decorators); a waiting gate whose awaited names exist counts as runnable"
RULE = "programs x runners x all env answers (gate decisions, same/new values), async completion orders within the deviation bound; states = abstract scheduler states reached; transitions = supersteps executed"
ASSUMPTIONS = ["the monitor demands only what the statement says; the implementation's extra clearing of stale decisions is allowed", "horizon = max_iterations; runs cut by the horizon are judged for safety only"]

GATE_KINDS = ["ifelse2", "ifelseEND", "route2", "route2END", "route2fb", "multi3", "route1+fb", "route1+fb-dict", "route2END-dict"]


def g1_program(kind, default_open, gate_in, tgt_in):
    nodes = [T.fn("src", ["e0"], ["a0"])]
    targets = ["p", "pq"]
    if kind == "ifelse2":
        nodes.append(T.ifelse("gt", [gate_in], "p", "pq", default_open=default_open))
    elif kind == "ifelseEND":
        nodes.append(T.ifelse("gt", [gate_in], "p", "END", default_open=default_open))
        targets = ["p"]
    elif kind == "route2":
        nodes.append(T.route("gt", [gate_in], ["pq", "p"], default_open=default_open))
    elif kind == "route2END":
        nodes.append(T.route("gt", [gate_in], ["pq", "p", "END"], default_open=default_open))
    elif kind == "route2fb":
        nodes.append(T.route("gt", [gate_in], ["pq", "p"], fallback="pq", default_open=default_open))
    elif kind in ("route1+fb", "route1+fb-dict"):
        # the fallback is NOT repeated among the declared targets (list form and dict form): it is a target all the same
        nodes.append(T.route("gt", [gate_in], ["pq"], fallback="p", default_open=default_open, **({"targets_dict": True} if kind.endswith("dict") else {})))
    elif kind == "route2END-dict":
        nodes.append(T.route("gt", [gate_in], ["pq", "p", "END"], default_open=default_open, targets_dict=True))
    elif kind == "multi3":
        nodes.append(T.route("gt", [gate_in], ["pq", "p", "pqr"], multi=True, default_open=default_open))
        targets = ["p", "pq", "pqr"]
    for t in targets:
        nodes.append(T.fn(t, [tgt_in], ["x_" + t]))
    nodes.append(T.fn("snk", ["x_p"], ["s0"]))
    exact = (not default_open) or (gate_in == "e0") or (gate_in == tgt_in)
    return T.prog(nodes), exact


def programs(tier):
    e = {"e0": ["prov", "e0"]}
    for kind in GATE_KINDS:
        for do in (True, False):
            for gi in ("a0", "e0"):
                for ti in ("a0", "e0"):
                    p, exact = g1_program(kind, do, gi, ti)
                    yield (f"g1-{kind}-{'open' if do else 'closed'}-{gi}-{ti}", p, e, dict(dag=True, exact=exact, horizon=8))
    # explicit edges: the gate->target pairs are also listed as (ordering-only) edges
    for kind in ("ifelse2", "route2END"):
        for do in (True, False):
            p, exact = g1_program(kind, do, "a0", "a0")
            p["nodes"] = [n for n in p["nodes"] if n["id"] != "snk"]
            p["edges"] = [["src", "gt"], ["src", "p"], ["src", "pq"], ["gt", "p"], ["gt", "pq"]]
            yield (f"explicit-edges-{kind}-{'open' if do else 'closed'}", p, e, dict(dag=True, exact=exact, horizon=8))
    for o1 in (True, False):
        for o2 in (True, False):
            for i1 in ("a0", "e0"):
                for i2 in ("a0", "e0"):
                    p = T.prog(
                        [
                            T.fn("src", ["e0"], ["a0"]),
                            T.ifelse("g1", [i1], "t", "u", default_open=o1),
                            T.route("g2", [i2], ["t", "v"], default_open=o2),
                            T.fn("t", ["e0"], ["t0"]),
                            T.fn("u", ["e0"], ["u0"]),
                            T.fn("v", ["e0"], ["v0"]),
                        ]
                    )
                    yield (f"shared-{o1}-{o2}-{i1}-{i2}", p, e, dict(dag=True, exact=(not o1 and not o2), horizon=8))
    for o1 in (True, False):
        for o2 in (True, False):
            for i2 in ("a0", "e0"):
                p = T.prog(
                    [
                        T.fn("src", ["e0"], ["a0"]),
                        T.route("g1", ["e0"], ["g2", "fast"], default_open=o1),
                        T.ifelse("g2", [i2], "ap", "rj", default_open=o2),
                        T.fn("ap", ["e0"], ["ap0"]),
                        T.fn("rj", ["e0"], ["rj0"]),
                        T.fn("fast", ["e0"], ["f0"]),
                    ]
                )
                yield (f"chain-{o1}-{o2}-{i2}", p, e, dict(dag=True, exact=not o2, horizon=8))
    # cycles (env data nodes, env gates)
    H_ = 6 if tier == "quick" else 9
    loop1 = T.prog([T.fn("inc", ["count"], ["count"], behav="env"), T.route("gt", ["count"], ["inc", "END"]), T.fn("side", ["count"], ["sq"], behav="env")])
    yield ("loop-route-END", loop1, {"count": 0}, dict(dag=False, exact=False, horizon=H_))
    loop2 = T.prog([T.fn("inc", ["count"], ["count"], behav="env"), T.ifelse("gt", ["count"], "inc", "fin"), T.fn("fin", ["count"], ["done"], behav="env")])
    yield ("loop-ifelse-exit", loop2, {"count": 0}, dict(dag=False, exact=False, horizon=H_))
    loop3 = T.prog([T.fn("b1", ["count"], ["mid"], behav="env"), T.fn("b2", ["mid"], ["count"], behav="env"), T.route("gt", ["count"], ["b1", "END"], default_open=False)])
    yield ("loop-two-body-closed", loop3, {"count": 0}, dict(dag=False, exact=False, horizon=H_))
    loop4 = T.prog(
        [
            T.fn("gen", ["draft"], ["draft"], behav="env"),
            T.route("jg", ["draft"], ["gen", "pub", "END"]),
            T.fn("pub", ["draft"], ["out"], behav="env"),
            T.ifelse("g2", ["draft"], "pub", "gen", default_open=False),
        ]
    )
    yield ("loop-two-gates", loop4, {"draft": 0}, dict(dag=False, exact=False, horizon=H_ - 1))
    # a gate that is itself gated, inside a cycle: once the outer gate stops selecting it, the inner gate is stale
    # but never re-runs - its targets must stay closed (it HAS decided in this run)
    for oi in (True, False):
        loop5 = T.prog(
            [
                T.fn("bump", ["count"], ["count"], behav="env"),
                T.ifelse("outer", ["count"], "inner", "fin", default_open=oi),
                T.route("inner", ["count"], ["bump", "audit"], default_open=True),
                T.fn("audit", ["count"], ["rep"], behav="env"),
                T.fn("fin", ["count"], ["done"], behav="env"),
            ]
        )
        yield (f"loop-gated-gate-{oi}", loop5, {"count": 0}, dict(dag=False, exact=False, horizon=H_))
    # nested: gate inside a nested graph; gate routing to a graph node
    inner, _ = g1_program("route2END", False, "e0", "e0")
    inner["name"] = "inner"
    # a gate that WAITS for a signal, becomes runnable (inputs there, signal already emitted once) together with its targets in the
    # very step in which the signal's producer is ready again: the gate is held back behind the producer, its targets must wait too
    for do in (True, False):
        for chain in (1, 2, 3):
            nodes = [T.fn("inc", ["n"], ["n"], emit=["tick"], behav="env"), T.route("lp", ["n"], ["inc", "END"])]
            prev = "seed"
            for ci in range(chain):
                nodes.append(T.fn(f"s{ci + 1}", [prev], [f"x{ci + 1}"]))
                prev = f"x{ci + 1}"
            nodes += [T.route("pick", [prev], ["ta", "tb"], wait_for=["tick"], default_open=do), T.fn("ta", [prev], ["ra"]), T.fn("tb", [prev], ["rb"])]
            yield (f"waiting-gate-held-behind-its-producer-{'open' if do else 'closed'}-{chain}", T.prog(nodes), {"n": 0, "seed": ["prov", "seed"]}, dict(dag=False, exact=False, horizon=H_))
    yield ("nested-gate-inside", T.prog([T.gnode("inner", inner), T.fn("sib", ["e0"], ["sb"])]), e, dict(dag=True, exact=True, horizon=8))
    # ... the nested graph mounted under another name with RENAMED branch outputs, each consumed by an outer node: a branch the inner
    # gate did not select contributes no value (not even None) outside, and its outer consumer never starts
    for kind in ("route2END", "ifelse2"):
        for do in (False, True):
            inn, _ = g1_program(kind, do, "e0", "e0")
            inn["name"] = "inner_flow"
            yield (
                f"nested-gate-renamed-branch-outputs-{kind}-{'open' if do else 'closed'}",
                T.prog([T.gnode("mounted", inn, rename_out={"x_p": "px", "x_pq": "qx"}), T.fn("usep", ["px"], ["up"]), T.fn("useq", ["qx"], ["uq"]), T.fn("sib", ["e0"], ["sb"])]),
                e,
                dict(dag=True, exact=not do, horizon=8),
            )
    inner2 = T.prog([T.fn("w1", ["e0"], ["w0"])], name="inner2")
    yield ("gate-to-graphnode", T.prog([T.route("gt", ["e0"], ["inner2", "oth"], default_open=False), T.gnode("inner2", inner2), T.fn("oth", ["e0"], ["o0"])]), e, dict(dag=True, exact=True, horizon=8))


def systematic(tier, seed):
    """Every configuration of one or two gates over three data nodes around one loop variable:
    body(c)->c (cycle), obs(c)->x, ind(e0)->y; each gate reads c or e0, is a route (two targets + END) or an
    if/else, picks its two targets among {body, obs, ind, END}, and is default-open or closed."""
    import itertools

    tgt_pairs = list(itertools.combinations(["body", "obs", "ind", "END"], 2))
    H_ = 6 if tier == "quick" else 8

    def gate(name, cfg):
        inp, kind, pair, do = cfg
        if kind == "route":
            tg = [t for t in pair if t != "END"] + ["END"]
            return T.route(name, [inp], tg, default_open=do)
        return T.ifelse(name, [inp], pair[0], pair[1], default_open=do)

    cfgs = [(inp, kind, pair, do) for inp in ("c", "e0") for kind in ("route", "ifelse") for pair in tgt_pairs for do in (True, False)]
    i = 0
    for c1 in cfgs:
        seconds = [None] + (cfgs if tier == "thorough" else [c for j, c in enumerate(cfgs) if (j + seed) % 12 == 0])
        for c2 in seconds:
            i += 1
            nodes = [T.fn("body", ["c"], ["c"], behav="env"), T.fn("obs", ["c"], ["x"], behav="env"), T.fn("ind", ["e0"], ["y"], behav="env"), gate("g1", c1)]
            if c2 is not None:
                nodes.append(gate("g2", c2))
            yield (f"sys-{i}", T.prog(nodes), {"c": 0, "e0": ["prov", "e0"]}, dict(dag=False, exact=False, horizon=H_, systematic=True))


def all_programs(tier, seed=0):
    yield from programs(tier)
    yield from systematic(tier, seed)


def shards(tier, seed):
    ps = list(all_programs(tier, seed))
    return [(tier, seed, i) for i in range(len(ps))]


# ---------------------------------------------------------------- monitor
def _levels(prog):
    """yield (program_level, ctrl) for every nesting level; ctrl: node id -> [gate specs]"""
    ctrl = {}
    for s in prog["nodes"]:
        if s["kind"] == "ifelse":
            tg = [s["when_true"], s["when_false"]]
        elif s["kind"] == "route":
            tg = list(s["targets"]) + ([s["fallback"]] if s.get("fallback") and s["fallback"] not in s["targets"] else [])
        else:
            continue
        for t in tg:
            if t != "END":
                ctrl.setdefault(t, []).append(s)
    yield prog, ctrl
    for s in prog["nodes"]:
        if s["kind"] == "graph":
            yield from _levels(s["inner"])


def _norm(spec, v):
    """The decision a returned value denotes; ('invalid',) when outside the declared menu."""
    from hypergraph import END

    if spec["kind"] == "ifelse":
        if v is True:
            r = spec["when_true"]
        elif v is False:
            r = spec["when_false"]
        else:
            return ("invalid",)
        return None if r == "END" else [r]
    tg = set(spec["targets"]) | ({spec["fallback"]} if spec.get("fallback") else set())
    if v is None and spec.get("fallback"):
        v = spec["fallback"]
    if v is None:
        return []
    if spec.get("multi"):
        if not isinstance(v, list):
            return ("invalid",)
        names = ["END" if x is END else x for x in v]
        if any(n not in tg for n in names):
            return ("invalid",)
        return [n for n in names if n != "END"]
    if isinstance(v, list):
        return ("invalid",)
    n = "END" if v is END else v
    if n not in tg:
        return ("invalid",)
    return [] if n == "END" else [n]


def monitor_view(h):
    """Monitor state for the pruning key: own view of the last decision per (run, gate)."""
    last = {}
    for seq, nid, v in h.decisions:
        last[nid] = repr(v)
    return tuple(sorted(last.items()))


def gate_violations(prog, x, meta):
    out = []
    h = x.h
    ctrl_all = {}
    for level, ctrl in _levels(prog):
        ctrl_all.update(ctrl)
    call_by_seq = {c.seq: c for c in h.calls}
    # decisions with the step of the gate call that made them
    decs = {}  # (run_id, gate) -> [(step, normalized)]
    invalid = False
    for seq, nid, v in h.decisions:
        c = call_by_seq[seq]
        d = _norm(h.specs[nid], v)
        if d == ("invalid",):
            invalid = True
        decs.setdefault((c.run_id, nid), []).append((c.step, d))
    gate_steps = {}
    for c in h.calls:
        if c.kind in ("ifelse", "route"):
            gate_steps.setdefault((c.run_id, c.nid), set()).add(c.step)
    steps_by = {(t.run_id, t.step): t for t in h.steps}
    started = {}
    for c in h.calls:
        started.setdefault((c.run_id, c.nid), []).append(c)
        gates = ctrl_all.get(c.nid)
        if not gates:
            continue
        ok = False
        tok = steps_by.get((c.run_id, c.step))
        for g in gates:
            # "when a gate and its targets become runnable together the gate decides first": a controlling gate that has
            # not run yet in this run, has every input (and awaited name) available before this step, and is itself either
            # ungated or held only by default-open gates that have not decided either, is runnable now
            not_yet = lambda gid: all(st > c.step for st in gate_steps.get((c.run_id, gid), ()))  # noqa: E731
            # (a gate that waits for names is runnable once every awaited name has been produced before this step; being held
            #  back one more step behind a co-ready producer of such a name does not release its targets)
            if tok is not None and not_yet(g["id"]) and all(w in tok.pre_values for w in g.get("wait_for") or ()):
                gnode = tok.graph._nodes.get(g.get("name", g["id"]))
                outer = ctrl_all.get(g["id"], [])
                if gnode is not None and all((p in tok.pre_values) or gnode.has_default_for(p) or p in tok.graph.inputs.bound for p in gnode.inputs) and all(o.get("default_open", True) and all(st >= c.step for st in gate_steps.get((c.run_id, o["id"]), ())) for o in outer):
                    out.append(({"symptom": "target-started-while-its-gate-was-runnable"}, f"target {c.nid} started in step {c.step} although its gate {g['id']} was runnable in that step and had not decided yet"))
            if c.step in gate_steps.get((c.run_id, g["id"]), ()):
                out.append(({"symptom": "target-started-in-gate-step"}, f"target {c.nid} started in step {c.step}, the same step in which its gate {g['id']} ran"))
            prior = [d for (st, d) in decs.get((c.run_id, g["id"]), []) if st < c.step]
            if prior:
                d = prior[-1]
                if d != ("invalid",) and d is not None and c.nid in d:
                    ok = True
            elif g.get("default_open", True):
                ok = True
        if not ok:
            out.append(({"symptom": "target-started-without-selection"}, f"node {c.nid} started in step {c.step} although no controlling gate's most recent decision names it and no default-open gate is undecided"))
    # nested graph node as a target: its inner runs are launched only when it starts - covered via the graph node start? graph nodes have no body;
    # detect through the inner run's parent step
    for rid, parent in h.run_parent.items():
        if parent is None:
            continue
    # decision validation
    if invalid:
        err = x.exc if x.exc is not None else (x.result.error if x.result is not None and not isinstance(x.result, list) else None)
        if err is None or not isinstance(err, (TypeError, ValueError)):
            out.append(({"symptom": "invalid-decision-accepted"}, f"a gate returned a value outside its declared menu but the run did not fail with TypeError/ValueError (status {x.status}, error {err!r})"))
    # final values: outputs of nodes that never started are absent
    if x.result is not None and not isinstance(x.result, list) and x.exc is None:
        top_run = next((t.run_id for t in h.steps if t.depth == 0), None)
        vals = x.result.values
        for s in prog["nodes"]:
            if s["kind"] == "fn" and (top_run, s["id"]) not in started:
                for o in s.get("outs", []):
                    if o in vals and o not in x.h_inputs:
                        out.append(({"symptom": "output-of-node-that-never-ran"}, f"value {o} present although {s['id']} never started"))
        # ... also through a nested graph node (and its output renames): an inner node that never started in any run contributes
        # nothing outside, and an outer node fed only by such a value never starts
        for s in prog["nodes"]:
            if s["kind"] != "graph":
                continue
            ro = s.get("rename_out") or {}
            ever = {nid for (_, nid) in started}
            for isp in s["inner"]["nodes"]:
                if isp["kind"] == "fn" and isp["id"] not in ever:
                    for o in isp.get("outs", []):
                        ext = ro.get(o, o)
                        if ext in vals and ext not in x.h_inputs:
                            out.append(({"symptom": "output-of-node-that-never-ran", "nested": True}, f"value {ext} present (= {jsonable(vals[ext])}) although the inner node {isp['id']} never started"))
                        for c in prog["nodes"]:
                            if c["kind"] == "fn" and c.get("params") == [ext] and c["id"] in ever:
                                out.append(({"symptom": "consumer-of-unselected-branch-ran", "nested": True}, f"{c['id']} started although its only input {ext} comes from the inner node {isp['id']}, which never started"))
        if meta["dag"] and meta["exact"] and not invalid and x.result.status.value == "completed" and not x.pruned:
            # exactly the selected branches executed
            for level, ctrl in _levels(prog):
                for tname, gates in ctrl.items():
                    runs = [rid for (rid, nid) in gate_steps if nid == gates[0]["id"]]
                    if h.specs.get(tname, {}).get("kind") not in ("fn",):
                        continue
                    for rid in set(runs):
                        sel = False
                        for g in gates:
                            ds = decs.get((rid, g["id"]), [])
                            if ds and ds[-1][1] not in (None, ("invalid",)) and tname in ds[-1][1]:
                                sel = True
                        did = (rid, tname) in started
                        if sel != did and all((rid, g["id"]) in gate_steps or not g.get("default_open", True) for g in gates):
                            # a gate that never ran (itself not selected) leaves closed targets closed
                            if sel and not did:
                                out.append(({"symptom": "selected-branch-did-not-run"}, f"target {tname} was selected but never ran"))
                            elif did and not sel:
                                out.append(({"symptom": "unselected-branch-ran"}, f"target {tname} ran although no gate selected it"))
    return out


def _judge(prog, inputs, meta):
    def judge(x):
        x.h_inputs = set(inputs)
        if x.deadlock or x.horizon:
            return [({"symptom": "no-termination"}, "run did not terminate")]
        return gate_violations(prog, x, meta)

    return judge


def run_shard(shard):
    tier, seed, i = shard
    acc = Acc()
    name, prog, inputs, meta = list(all_programs(tier, seed))[i]
    if meta.get("systematic"):
        from ..dsl import H as _H, build as _build

        try:
            _build(prog, _H())
        except Exception:  # noqa: BLE001 - configuration rejected by the constructor (e.g. conflicting producers): not in the space
            acc.counters["systematic_configurations_rejected_by_constructor"] += 1
            return acc
    for runner in ("sync", "async"):
        p = T.set_async(prog, runner == "async")
        configs = [dict(suspend=False, invalid_menu=False), dict(suspend=False, invalid_menu=True)]
        if runner == "async" and not meta.get("systematic"):
            configs.append(dict(suspend=True, invalid_menu=False))
        for cfg in configs:
            if cfg["invalid_menu"] and not meta["dag"]:
                continue
            n = 0
            for ch, x in explore_nd(p, inputs, runner, horizon=meta["horizon"], acc=acc, case_key=name, judge=_judge(p, inputs, meta), monitor_extra=monitor_view, bound=1 if tier == "quick" else 2, max_execs=6000 if tier == "quick" else 60000, **cfg):
                n += 1
                acc.outcomes[(name.split("-")[0], runner, x.status, x.pruned)] += 1
            acc.key((name, runner, tuple(sorted(cfg.items()))))
            acc.counters[f"executions[{name},{runner},{'susp' if cfg['suspend'] else ''}{'inv' if cfg['invalid_menu'] else ''}]"] = n
        if tier == "thorough":
            # abstraction cross-check: the same program WITHOUT state pruning to a fixed depth, same monitor
            # (guards the pruning key of DESIGN 3.3: anything it wrongly merges would show up here)
            un = 0
            for ch, x in explore_nd(p, inputs, runner, horizon=min(5, meta["horizon"]), acc=acc, case_key=name + "/unpruned", judge=_judge(p, inputs, meta), bound=0, max_execs=30000, prune=False, suspend=False, invalid_menu=False):
                un += 1
            acc.counters["unpruned_executions"] += un
    acc.sample({"program": name, "spec": prog, "meta": meta}, 1)
    return acc


def coverage_extra(acc, tier, seed):
    return {"horizon": 6 if tier == "quick" else 9, "deviation_bound_completed": {"sched": 1 if tier == "quick" else 2, "env": "unbounded"}}


def replay(rep):
    from ..dsl import H, execute

    prog, inputs, runner = rep["program"], rep["inputs"], rep["runner"]
    meta = next((m for n, p, i, m in programs("quick") if n == rep["case"]), dict(dag=False, exact=False, horizon=rep["horizon"]))

    def run(ch):
        h = H(ch, suspend=rep["suspend"], invalid_menu=rep["invalid_menu"])
        return execute(prog, inputs, runner=runner, chooser=ch, h=h, max_iterations=rep["horizon"], error_handling="continue")

    _, x = run_once(run, rep["choices"])
    return [m for _, m in _judge(prog, inputs, meta)(x)]
