"""C04 - loops iterate exactly as the gate dictates and always terminate (DESIGN 4, C04)."""
from __future__ import annotations

import itertools

from .. import templates as T
from ..dsl import H, execute, jsonable
from ..evidence import Acc, hk

PID = "C04"
BOTH_CONSTRUCTION_PATHS = True  # every program once with constructor-built and once with decorator-built nodes (mc/dsl.py VIA)
LEVEL = "model_checking"
TECHNIQUE = "bounded-exhaustive exploration of loop programs on the real runners: all loop templates x iteration counts, ALL gate decision sequences up to depth D, ALL max_iterations values up to M, against a sequential while / do-while reference; step counts observed through the superstep seam"
LEVEL_TEXT = (
    "(1) every deterministic loop template (body length 1-3, route/ifelse gate, exit via END or exit node, gate reading the loop state or waiting "
    "on the end-of-iteration signal, accumulator side node, nested in a graph node, entry at every listed entry point) for every iteration count "
    "0..N is run on both runners and compared (final values, per-node invocation counts) with the sequential loop it denotes; (2) every gate "
    "decision sequence up to length D; (3) every max_iterations m<=M on converging and diverging instances: steps executed <= m and either the "
    "reference result or InfiniteLoopError with the values of the m-step prefix."
)
LEVEL_NOTE = 'reference = run_loop() in this module (plain Python while/do-while); the prefix trajectory for (3) is the step-observer record of the unbounded run of the same program; every program on both construction paths; mid-body entry also through with_entrypoint derived from a graph object that already ran'
RULE = "templates x parameters enumerated exhaustively inside the bounds; states = distinct (template, parameters, step) scheduler states visited; transitions = supersteps executed"
ASSUMPTIONS = ["loop-carried values are small integers; each body node adds 1", "signal-synchronised gates use default_open=True (a closed gate waiting on a signal emitted by its own target can never start, by construction)"]


def loop_program(L, gate_kind, exit_kind, sync, acc, limit=None, script=None, nested=False):
    """Body b1..bL: b1(x0)->x1 ... bL(x{L-1})->x0 (each +1); gate(x0) -> b1 | END / fin."""
    names = [f"x{i}" for i in range(L)]
    nodes = []
    for i in range(L):
        out = names[(i + 1) % L]
        spec = T.fn(f"b{i + 1}", [names[i]], [out], behav={"py": f"{names[i]} + 1"})
        if sync == "signal" and i == L - 1:
            spec["emit"] = ["it_done"]
        nodes.append(spec)
    stop = "fin" if exit_kind == "node" else "END"
    gkw = {}
    if sync == "signal":
        gkw["wait_for"] = ["it_done"]
    if sync == "signal-after":
        # the end-of-iteration signal comes from a node that runs one step AFTER the loop state changed: in between the
        # gate is stale but not runnable, and the loop head must wait for its re-evaluation
        gkw["wait_for"] = ["it_done"]
        nodes.append(T.fn("ps", ["x0"], ["saved"], emit=["it_done"], behav={"py": "('s', x0)"}))
    if sync == "late":
        # the gate reads the loop state AND waits for a value derived from it one step later: in the step
        # right after the state changed the gate is stale but not yet runnable
        gkw["wait_for"] = ["mark"]
        gkw["default_open"] = False
        nodes.append(T.fn("mk", ["x0"], ["mark"], behav={"py": "('m', x0)"}))
    if script is not None:
        beh = {"seq": [("b1" if gate_kind == "route" else True) if c else (stop if gate_kind == "route" else False) for c in script]}
    else:
        beh = {"py": f"'b1' if x0 < {limit} else {'END' if stop == 'END' else repr(stop)}"} if gate_kind == "route" else {"py": f"x0 < {limit}"}
    if gate_kind == "route":
        nodes.append(T.route("gt", ["x0"], ["b1", stop], behav=beh, **gkw))
    else:
        nodes.append(T.ifelse("gt", ["x0"], "b1", stop, behav=beh, **gkw))
    if exit_kind == "node":
        nodes.append(T.fn("fin", ["x0"], ["done"], behav={"py": "('done', x0)"}))
    if acc:
        nodes.append(T.fn("acc", ["total", names[1 % L]], ["total"], behav={"py": f"total + {names[1 % L]}"}))
    p = T.prog(nodes)
    if nested:
        p["name"] = "lp"
        p = T.prog([T.gnode("lp", p), T.fn("after", ["x0"], ["res"], behav={"py": "('after', x0)"})])
    return p


def run_loop(L, exit_kind, sync, acc, decide, entry=0, x_init=0, total_init=100):
    """Sequential reference.  decide(x0, k) -> continue?  Returns (values, counts)."""
    x = {f"x{i}": None for i in range(L)}
    counts = {f"b{i + 1}": 0 for i in range(L)}
    counts["gt"] = 0
    total = total_init
    acc_runs = 0
    k = 0

    def body(start):
        nonlocal total, acc_runs
        for i in range(start, L):
            src = f"x{i}"
            dst = f"x{(i + 1) % L}"
            x[dst] = x[src] + 1
            counts[f"b{i + 1}"] += 1
            if acc and dst == f"x{1 % L}":
                total += x[dst]
                acc_runs += 1

    x[f"x{entry}"] = x_init
    if acc and entry == 1 % L:
        total += x_init  # the accumulator's input is the seeded name: it runs on the seed as well
        acc_runs += 1
    if entry != 0:
        body(entry)  # tail first
    elif sync in ("signal", "signal-after"):
        body(0)  # do-while: the gate cannot see the signal before the body ran once
    while True:
        counts["gt"] += 1
        go = decide(x["x0"], k)
        k += 1
        if not go:
            break
        body(0)
    vals = {n: v for n, v in x.items() if v is not None}  # a seeded loop value is a declared output name too
    if exit_kind == "node":
        vals["done"] = ("done", x["x0"])
        counts["fin"] = 1
    if acc:
        counts["acc"] = acc_runs
        vals["total"] = total
    return vals, counts


def _inputs(L, acc, entry, x_init=0):
    ins = {f"x{entry}": x_init}
    if acc:
        ins["total"] = 100
    return ins


def _observe(x):
    counts = {}
    for c in x.h.calls:
        counts[c.nid] = counts.get(c.nid, 0) + 1
    return counts


def _drop_exit(got, exp, x, w, acc_):
    """The exit node is not part of the loop body: a default-open gate lets it start early (C03), so only
    'ran at least once, and last with the final loop state' is demanded of it."""
    got.pop("mk", None)
    got.pop("ps", None)
    e = exp.pop("fin", 0)
    g = got.pop("fin", 0)
    if e and not g:
        acc_.violation({"symptom": "exit-node-did-not-run"}, w, "loop exited via its exit node but the exit node never ran")


def check_det(acc_, cfg, runner):
    _check_det(acc_, cfg, runner, False)
    if cfg[6] != 0 and not cfg[7]:
        _check_det(acc_, cfg, runner, True)


def _check_det(acc_, cfg, runner, use_ep):
    L, gk, ek, sync, ac, n, entry, nested = cfg
    limit = n * L
    prog = loop_program(L, gk, ek, sync, ac, limit=limit, nested=nested)
    if use_ep:
        # mid-body entry also through with_entrypoint(), derived from a graph object that was run from the loop head before
        prog["entry"] = [f"b{entry + 1}"]
        prog["preuse"] = _inputs(L, ac, 0)
    p = T.set_async(prog, runner == "async")
    ins = _inputs(L, ac, entry)
    x = execute(p, ins, runner=runner, h=H(), error_handling="continue", max_iterations=400)
    acc_.evaluations += 1
    acc_.traces += 1
    top = [t for t in x.h.steps if t.depth == (1 if nested else 0)]
    acc_.transitions += len(top)
    for t in top:
        acc_.states.add(hk((cfg, t.step, tuple(sorted(t.pre_values.items(), key=repr)))))
    exp_vals, exp_counts = run_loop(L, ek, sync, ac, lambda x0, k: x0 < limit, entry=entry)
    if sync == "late":
        exp_vals["mark"] = ("m", exp_vals["x0"])
    if sync == "signal-after":
        exp_vals["saved"] = ("s", exp_vals["x0"])
    w = {"kind": "det", "cfg": list(cfg), "runner": runner, "program": prog, "inputs": ins, "with_entrypoint": use_ep}
    if x.exc is not None or x.result is None or x.result.status.value != "completed":
        acc_.violation({"symptom": "loop-did-not-complete", "sync": sync}, w, f"loop {cfg}: status {x.status} error={x.exc or getattr(x.result, 'error', None)!r}")
        return
    got_counts = _observe(x)
    got_counts.pop("after", None)
    exp_counts = {k: v for k, v in exp_counts.items() if v}
    _drop_exit(got_counts, exp_counts, x, w, acc_)
    if sync == "signal-after":
        # the signalling node also runs on the seeded state, so (for bodies of >= 2 nodes) the gate evaluates the seed once,
        # concurrently with the first pass; that decision is discarded as stale before it can activate anything.  The
        # statement fixes body executions and final values, which are compared exactly; the gate count only from below.
        if got_counts.get("gt", 0) < exp_counts.get("gt", 0):
            acc_.violation({"symptom": "iteration-count", "which": "gate", "sync": sync, "entry_mid_body": False}, w, f"loop {cfg}: gate ran {got_counts.get('gt', 0)}x, fewer than the {exp_counts.get('gt', 0)} decisions the loop needs")
        got_counts.pop("gt", None)
        exp_counts.pop("gt", None)
    if got_counts != exp_counts:
        diff = {k: (got_counts.get(k, 0), exp_counts.get(k, 0)) for k in set(got_counts) | set(exp_counts) if got_counts.get(k, 0) != exp_counts.get(k, 0)}
        kind = "gate" if set(diff) == {"gt"} else ("accumulator" if set(diff) <= {"acc"} else "body")
        acc_.violation({"symptom": "iteration-count", "which": kind, "sync": sync, "entry_mid_body": entry != 0}, w, f"loop {cfg}: invocation counts (got, expected) differ: {diff}")
    vals = dict(x.result.values)
    if nested:
        exp = {k: v for k, v in exp_vals.items()}
        exp["res"] = ("after", exp_vals["x0"])
    else:
        exp = exp_vals
    if vals != exp:
        acc_.violation({"symptom": "final-values", "sync": sync, "entry_mid_body": entry != 0}, w, f"loop {cfg}: final values {jsonable(vals)} expected {jsonable(exp)}")


def check_script(acc_, cfg, runner):
    L, gk, ek, sync, script = cfg
    prog = loop_program(L, gk, ek, sync, False, script=list(script))
    p = T.set_async(prog, runner == "async")
    x = execute(p, {"x0": 0}, runner=runner, h=H(), error_handling="continue", max_iterations=400)
    acc_.evaluations += 1
    acc_.traces += 1
    acc_.transitions += len(x.h.steps)
    for t in x.h.steps:
        acc_.states.add(hk(("script", cfg, t.step)))
    # reference: decisions consumed in order; the last script entry repeats (always a stop)
    exp_vals, exp_counts = run_loop(L, ek, sync, False, lambda x0, k: script[min(k, len(script) - 1)])
    got = _observe(x)
    w = {"kind": "script", "cfg": [L, gk, ek, sync, list(script)], "runner": runner, "program": prog}
    if x.exc is not None or x.result is None or x.result.status.value != "completed":
        acc_.violation({"symptom": "loop-did-not-complete", "sync": sync}, w, f"scripted loop {cfg}: status {x.status}")
        return
    exp_counts = {k: v for k, v in exp_counts.items() if v}
    _drop_exit(got, exp_counts, x, w, acc_)
    if got != exp_counts:
        acc_.violation({"symptom": "body-count-vs-decisions", "sync": sync}, w, f"decisions {script}: invocation counts {got} expected {exp_counts}")
    # nothing of the body runs after the stop decision
    stop_seq = None
    for seq, nid, v in x.h.decisions:
        cont = (v == "b1") or (v is True)
        if not cont:
            stop_seq = seq
            break
    if stop_seq is not None and any(c.seq > stop_seq and c.nid.startswith("b") for c in x.h.calls):
        acc_.violation({"symptom": "body-ran-after-stop", "sync": sync}, w, f"decisions {script}: a body node ran after the stop decision")


def check_maxiter(acc_, cfg, runner):
    L, gk, ek, diverge, n, m = cfg[:6]
    entry = len(cfg) > 6 and cfg[6]
    limit = 10**6 if diverge else n * L
    prog = loop_program(L, gk, ek, "state", False, limit=limit)
    if entry:
        # an upstream node that is runnable on its own (defaulted input) but excluded by the entry point:
        # it must neither run nor count as 'still ready' when the cap is reached
        prog["nodes"][0]["params"] = ["x0", "aux"]
        prog["nodes"].append(T.fn("pre", ["seed"], ["aux"], defaults={"seed": 0}, behav={"py": "('aux', seed)"}))
        prog["entry"] = ["b1"]
        # the entry-point graph is derived from a graph OBJECT that was already inspected and run in full
        prog["preuse"] = {"x0": 0}
    p = T.set_async(prog, runner == "async")
    big = 60
    ins0 = {"x0": 0, "aux": ["given", "aux"]} if entry else {"x0": 0}
    xr = execute(p, ins0, runner=runner, h=H(), error_handling="continue", max_iterations=big)
    traj = [t for t in xr.h.steps if t.depth == 0]
    S = len(traj)
    outs = None
    w = {"kind": "maxiter", "cfg": list(cfg), "runner": runner, "program": prog}
    # run-time selections on the capped run: "the values computed so far" follow the selection, and a selected output that
    # does not exist yet (the exit node's) must not turn the InfiniteLoopError report into another error
    sels = [{}, {"select": ["x0"], "on_missing": "error"}] + ([{"select": ["done"], "on_missing": "error"}, {"select": ["x0", "done"], "on_missing": "warn"}] if ek == "node" else [])
    for eh, selkw in [(eh_, sk) for eh_ in ("raise", "continue") for sk in sels]:
        w = {"kind": "maxiter", "cfg": list(cfg), "runner": runner, "program": prog, "select": selkw.get("select")}
        sel = selkw.get("select")
        x = execute(p, ins0, runner=runner, h=H(), error_handling=eh, max_iterations=m, **selkw)
        acc_.evaluations += 1
        acc_.traces += 1
        if entry and any(c.nid == "pre" for c in x.h.calls):
            acc_.violation({"symptom": "node-outside-entry-scope-ran"}, {**w, "eh": eh}, "the upstream node excluded by the entry point ran")
        steps = [t for t in x.h.steps if t.depth == 0]
        acc_.transitions += len(steps)
        for t in steps:
            acc_.states.add(hk(("maxiter", cfg[:5], t.step)))
        if len(steps) > m:
            acc_.violation({"symptom": "more-steps-than-max_iterations"}, {**w, "eh": eh}, f"max_iterations={m}: {len(steps)} supersteps executed")
        needs_more = diverge or S > m
        from hypergraph.exceptions import InfiniteLoopError

        if not needs_more:
            ok = x.exc is None and x.result.status.value == "completed" and dict(x.result.values) == {k: v for k, v in xr.result.values.items() if sel is None or k in sel}
            if not ok:
                acc_.violation({"symptom": "converging-loop-cut"}, {**w, "eh": eh}, f"max_iterations={m} suffices ({S} steps needed) but the run gave {x.status} / {jsonable(x.view())}")
            continue
        err = x.exc if eh == "raise" else (x.result.error if x.result is not None else None)
        if not isinstance(err, InfiniteLoopError):
            acc_.violation({"symptom": "no-InfiniteLoopError", "eh": eh}, {**w, "eh": eh}, f"max_iterations={m} < {S if not diverge else 'inf'} steps needed, but got {x.status} error={err!r}")
            continue
        if eh == "continue":
            post = traj[m - 1].post if m - 1 < len(traj) else None
            if post is not None:
                gouts = set(traj[0].graph.outputs)
                exp = {k: v for k, v in post.values.items() if k in gouts and (sel is None or k in sel)}
                if dict(x.result.values) != exp:
                    acc_.violation({"symptom": "partial-values-not-prefix"}, {**w, "eh": eh}, f"max_iterations={m}: values {jsonable(x.result.values)} are not the values after {m} steps {jsonable(exp)}")


def check_two_accumulators(acc_, N, runner):
    """A gated counter next to TWO ungated accumulators writing one name, ordered by emit/wait_for:
    the sequential meaning is  for k in k0..N: log += a(k); log += b(k)."""
    prog = T.prog(
        [
            T.fn("inc", ["k"], ["k"], behav={"py": "k + 1"}),
            T.route("gt", ["k"], ["inc", "END"], behav={"py": f"'inc' if k < {N} else END"}),
            T.fn("adda", ["log", "k"], ["log"], emit=["a_done"], behav={"py": "log + (('a', k),)"}),
            T.fn("addb", ["log", "k"], ["log"], wait_for=["a_done"], behav={"py": "log + (('b', k),)"}),
        ]
    )
    p = T.set_async(prog, runner == "async")
    x = execute(p, {"k": 0, "log": []}, runner=runner, h=H(), error_handling="continue", max_iterations=30 + 10 * N)
    acc_.evaluations += 1
    acc_.traces += 1
    acc_.transitions += len(x.h.steps)
    for t in x.h.steps:
        acc_.states.add(hk(("acc2", N, t.step)))
    exp_log = tuple(e for k in range(N + 1) for e in (("a", k), ("b", k)))
    exp_counts = {"gt": N + 1, "adda": N + 1, "addb": N + 1}
    if N:
        exp_counts["inc"] = N
    got = _observe(x)
    w = {"kind": "acc2", "cfg": [N], "runner": runner, "program": prog}
    if x.exc is not None or x.result is None or x.result.status.value != "completed":
        acc_.violation({"symptom": "loop-did-not-complete", "sync": "two-accumulators"}, w, f"two-accumulator loop N={N}: status {x.status} error={x.exc or getattr(x.result, 'error', None)!r}, counts {got}")
        return
    if got != exp_counts or x.result.values.get("log") != exp_log:
        acc_.violation({"symptom": "iteration-count", "which": "accumulator", "sync": "two-accumulators", "entry_mid_body": False}, w, f"two-accumulator loop N={N}: counts {got} expected {exp_counts}; log {jsonable(x.result.values.get('log'))} expected {jsonable(exp_log)}")


def check_two_signal_gate(acc_, N, runner):
    """The loop gate waits for TWO end-of-iteration signals emitted by two body branches of different length (one step and three
    steps behind the loop state, so that the slow signal's producer is not yet co-ready when the quick one has fired): every iteration needs both, so the sequential meaning is
    while True: q = quick(i); r = slow3(slow2(slow1(i))); if not r < N: break; i = inc(i)."""
    prog = T.prog(
        [
            T.fn("inc", ["i"], ["i"], behav={"py": "i + 1"}),
            T.fn("quick", ["i"], ["q"], emit=["q_done"], behav={"py": "('q', i)"}),
            T.fn("slow1", ["i"], ["r0"], behav={"py": "('r0', i)"}),
            T.fn("slow2", ["r0"], ["r1"], behav={"py": "('r1', r0[1])"}),
            T.fn("slow3", ["r1"], ["r"], emit=["r_done"], behav={"py": "('r', r1[1])"}),
            # (the gate decides on the SLOW branch's result: fired on a half-finished turn it would read the previous turn's r)
            T.route("gt", ["i", "r"], ["inc", "END"], wait_for=["q_done", "r_done"], default_open=False, behav={"py": f"'inc' if r[1] < {N} else END"}),
        ]
    )
    p = T.set_async(prog, runner == "async")
    x = execute(p, {"i": 0}, runner=runner, h=H(), error_handling="continue", max_iterations=200)
    acc_.evaluations += 1
    acc_.traces += 1
    got = _observe(x)
    w = {"kind": "two-signal-gate", "cfg": [N], "runner": runner, "program": prog}
    exp_counts = {"inc": N, "quick": N + 1, "slow1": N + 1, "slow2": N + 1, "slow3": N + 1, "gt": N + 1}
    exp_counts = {k: v for k, v in exp_counts.items() if v}
    if x.exc is not None or x.result is None or x.result.status.value != "completed":
        acc_.violation({"symptom": "loop-did-not-complete", "sync": "two-signals"}, w, f"two-signal gate loop N={N}: status {x.status} error={x.exc or getattr(x.result, 'error', None)!r}, counts {got}")
        return
    exp_vals = {"i": N, "q": ("q", N), "r0": ("r0", N), "r1": ("r1", N), "r": ("r", N)}
    if got != exp_counts or dict(x.result.values) != exp_vals:
        acc_.violation({"symptom": "iteration-count", "which": "gate", "sync": "two-signals", "entry_mid_body": False}, w, f"loop whose gate waits for two signals, N={N} ({runner}): counts {got} expected {exp_counts}; values {jsonable(x.result.values)} expected {jsonable(exp_vals)}")


def check_cached_signal_loop(acc_, N, runner):
    """The signal-synchronised loop with every function node cached, run twice on one cache: the warm run must
    iterate exactly like the cold one (a cached emitter still produces its signal)."""
    from hypergraph.cache import InMemoryCache

    prog = T.prog(
        [
            T.fn("inc", ["count"], ["count"], behav={"py": "count + 1"}),
            T.fn("fin", ["count"], ["out"], emit=["done"], cache=True, behav={"py": "('out', count)"}),
            T.route("chk", ["count"], ["inc", "END"], wait_for=["done"], behav={"py": f"'inc' if count < {N} else END"}),
        ]
    )
    p = T.set_async(prog, False)
    cache = InMemoryCache()
    views = []
    for round_ in (0, 1):
        h = H()
        x = execute(p, {"count": 0}, runner=runner, h=h, cache=cache, error_handling="continue", max_iterations=40 + 10 * N)
        acc_.evaluations += 1
        acc_.traces += 1
        acc_.transitions += len(h.steps)
        for t in h.steps:
            acc_.states.add(hk(("cached-signal-loop", N, round_, t.step)))
        counts = _observe(x)
        views.append((x.status, None if x.result is None else dict(x.result.values), counts.get("inc", 0), counts.get("chk", 0)))
    w = {"kind": "cached-signal-loop", "cfg": [N], "runner": runner, "program": prog}
    cold, warm = views
    if cold[0] != "completed" or cold[1].get("count") != max(N, 0) and cold[1].get("count") != N:
        pass
    if warm[:2] != cold[:2] or warm[2] != cold[2] or warm[3] != cold[3]:
        acc_.violation({"symptom": "iteration-count", "which": "body", "sync": "cached-signal-loop", "entry_mid_body": False}, w, f"signal-synchronised loop with a cached emitter, N={N}: warm run (status, values, body runs, gate runs) = {jsonable(warm)} but the cold run gave {jsonable(cold)}")


def _det_cfgs(tier):
    N = 3 if tier == "quick" else 6
    for L in (1, 2, 3):
        for gk in ("route", "ifelse"):
            for ek in ("END", "node"):
                for sync in ("state", "signal", "late", "signal-after"):
                    for ac in (False, True):
                        if ac and L != 1:
                            continue  # acc on a multi-node body cannot be entered with the loop seed alone (see C08 observation)
                        for n in range(0, N + 1):
                            entries = range(L) if sync not in ("signal", "signal-after") else (0,)
                            for entry in entries:
                                for nested in (False, True):
                                    if nested and (entry != 0 or ac or L != 1):
                                        continue  # a nested multi-node-body loop cannot be entered on the pinned tree (C08 finding)
                                    yield (L, gk, ek, sync, ac, n, entry, nested)


def _script_cfgs(tier):
    D = 4 if tier == "quick" else 7
    for L in (1, 2):
        for gk in ("route", "ifelse"):
            for ek in ("END", "node"):
                for sync in ("state", "signal", "late"):
                    for d in range(1, D + 1):
                        for pre in itertools.product((True, False), repeat=d - 1):
                            yield (L, gk, ek, sync, tuple(pre) + (False,))


def _maxiter_cfgs(tier):
    M = 8 if tier == "quick" else 16
    for L in (1, 2):
        for gk in ("route", "ifelse"):
            for ek in ("END", "node"):
                for diverge in (False, True):
                    for n in ((2,) if diverge else (0, 1, 2, 3)):
                        for m in range(1, M + 1):
                            yield (L, gk, ek, diverge, n, m)
                            if L == 1 and ek == "END" and not diverge:
                                yield (L, gk, ek, diverge, n, m, True)


def shards(tier, seed):
    return [(tier, seed, part, s, 16) for part in ("det", "script", "maxiter") for s in range(16)]


def run_shard(shard):
    tier, seed, part, s, k = shard
    acc = Acc()
    if part == "det" and s == 0:
        for N in range(0, 4 if tier == "quick" else 8):
            for runner in ("sync", "async"):
                acc.key(("acc2", N, runner))
                check_two_accumulators(acc, N, runner)
                acc.key(("cached-signal-loop", N, runner))
                check_cached_signal_loop(acc, N, runner)
                acc.key(("two-signal-gate", N, runner))
                check_two_signal_gate(acc, N, runner)
    gen, fn = {"det": (_det_cfgs, check_det), "script": (_script_cfgs, check_script), "maxiter": (_maxiter_cfgs, check_maxiter)}[part]
    for i, cfg in enumerate(gen(tier)):
        if i % k != s:
            continue
        for runner in ("sync", "async"):
            acc.key((part, cfg, runner))
            fn(acc, cfg, runner)
            acc.outcomes[(part, runner)] += 1
        if i == s:
            acc.sample({"part": part, "cfg": jsonable(cfg)}, 2)
    return acc


def coverage_extra(acc, tier, seed):
    return {"bounds": {"iterations": 3 if tier == "quick" else 6, "body_length": 3, "decision_depth": 4 if tier == "quick" else 7, "max_iterations": 8 if tier == "quick" else 16}}


def replay(rep):
    acc = Acc()
    cfg = rep["cfg"]
    if rep["kind"] == "two-signal-gate":
        check_two_signal_gate(acc, cfg[0], rep["runner"])
    elif rep["kind"] == "cached-signal-loop":
        check_cached_signal_loop(acc, cfg[0], rep["runner"])
    elif rep["kind"] == "acc2":
        check_two_accumulators(acc, cfg[0], rep["runner"])
    elif rep["kind"] == "det":
        check_det(acc, tuple(cfg), rep["runner"])
    elif rep["kind"] == "script":
        check_script(acc, (cfg[0], cfg[1], cfg[2], cfg[3], tuple(cfg[4])), rep["runner"])
    else:
        check_maxiter(acc, tuple(cfg), rep["runner"])
    return [v["message"] for v in acc.violations.values()]
