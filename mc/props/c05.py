"""C05 - composition: a nested graph behaves exactly like its nodes inlined (DESIGN 4, C05)."""
from __future__ import annotations

import copy
import itertools

from .. import templates as T
from ..dsl import H, build, canon, execute, jsonable
from ..evidence import Acc
from ..progen import ancestors, dag_shapes, out_name, shape_names, NODE_IDS

PID = "C05"
LEVEL = "exploration"
TECHNIQUE = "bounded-exhaustive enumeration of (DAG program, dependency-closed node subset, nesting depth, binding placement, wrapper renames) with the flat graph as differential reference on the real runners"
LEVEL_TEXT = (
    "every DAG shape inside the bounds x EVERY dependency-closed (convex) node subset wrapped as a nested-graph node x re-wrapping to depth 3 "
    "(around and inside) x source assignments (provided / signature default / bound on the inner graph, on the outer graph, or on both with "
    "different values) x wrapper input/output renames: required and optional inputs (as sets), bound names and all returned values must equal "
    "those of the flat graph, and every inner function must receive the arguments it receives in the flat run."
)
LEVEL_NOTE = "reference = the library's own flat run (C01 checks flat graphs against an independent evaluator); values are provenance terms so a wrong boundary crossing changes the value; also: swap renames, falsy outer bindings, option-like input names, sibling bindings, inner default selections x output renames, repeated runs with mutated (own / shared) defaults"
RULE = "shapes x convex subsets x depth x source placement x renames x runners; distinct_nontrivial = distinct (shape, subset, depth, placement, rename) configurations"
ASSUMPTIONS = ["an input bound on both levels uses the outer value in the flat reference (the outer binding is the later one)", "wrapper inputs are renamed only for names consumed exclusively inside the wrapped subset; outer consumers of renamed wrapper outputs are renamed consistently"]


def convex_subsets(shape):
    anc, prod = ancestors(shape)
    n = len(shape)
    for r in range(1, n + 1):
        for S in itertools.combinations(range(n), r):
            s = set(S)
            ok = True
            for b in range(n):
                if b in s:
                    continue
                # b outside: must not be both a descendant of some a in S and an ancestor of some c in S
                if (anc[b] & s) and any(b in anc[c] for c in s):
                    ok = False
                    break
            if ok:
                yield S


def flat_program(shape, src, out_default):
    """src: ext -> one of 'P','D','Bi','Bo','Bio' (bound inner / outer / both)."""
    nodes = []
    for j, (params, n_out) in enumerate(shape):
        defaults = {}
        for p in params:
            if p.startswith("e"):
                if src[p] in ("D", "DBi"):
                    defaults[p] = ["dflt", p]
            elif p in out_default:
                defaults[p] = ["dflt", p]
        ps = [p for p in params if p not in defaults] + [p for p in params if p in defaults]
        nodes.append({"id": NODE_IDS[j], "kind": "fn", "params": ps, "defaults": defaults, "outs": [out_name(j, k) for k in range(n_out)]})
    return {"nodes": nodes}


def wrap(prog, ids, name):
    """Replace the top-level nodes ``ids`` by one nested-graph node (placed at the first one's position)."""
    inner_nodes = [s for s in prog["nodes"] if s["id"] in ids]
    out = []
    done = False
    for s in prog["nodes"]:
        if s["id"] in ids:
            if not done:
                out.append({"id": name, "kind": "graph", "inner": {"nodes": inner_nodes, "name": name}})
                done = True
        else:
            out.append(s)
    return {**{k: v for k, v in prog.items() if k != "nodes"}, "nodes": out}


def spec_io(s):
    """(external inputs, outputs) of a spec at its own level, after its renames."""
    if s["kind"] == "graph":
        produced = set()
        ins = []
        for i in s["inner"]["nodes"]:
            pi, po = spec_io(i)
            for p in pi:
                if p not in produced and p not in ins:
                    ins.append(p)
            produced |= set(po)
        # inputs produced by a LATER inner node are still internal
        allp = set()
        for i in s["inner"]["nodes"]:
            allp |= set(spec_io(i)[1])
        ins = [p for p in ins if p not in allp]
        outs = [o for i in s["inner"]["nodes"] for o in spec_io(i)[1]]
    else:
        ins, outs = list(s.get("params", [])), list(s.get("outs", []))
    ri, ro = s.get("rename_in") or {}, s.get("rename_out") or {}
    return [ri.get(p, p) for p in ins], [ro.get(o, o) for o in outs]


def place_bindings(prog, src, wrapper):
    """Bind externals according to src on the inner graph of ``wrapper`` and / or the outer graph."""
    p = copy.deepcopy(prog)
    flat_bind = {}
    w = next(s for s in p["nodes"] if s["id"] == wrapper)
    w_ins, _ = spec_io({**w, "rename_in": None, "rename_out": None})
    for e, kind in src.items():
        if kind in ("Bi", "Bio", "DBi") and e in w_ins:
            w["inner"].setdefault("bind", {})[e] = ["bound-inner", e] if kind == "Bio" else ["bound", e]
        if kind in ("Bo", "Bio") or (kind in ("Bi", "DBi") and e not in w_ins):
            p.setdefault("bind", {})[e] = ["bound-outer", e] if kind == "Bio" else ["bound", e]
    return p, flat_bind


_FALSY = {"e0": 0, "e1": "", "e2": None}


def _falsify(prog):
    """Replace the tokens ['bound', e] and ['bound-outer', e] by a falsy value per input name, at every nesting level."""
    p = copy.deepcopy(prog)

    def rec(level):
        if level.get("bind"):
            level["bind"] = {k: (_FALSY.get(k.split("_")[0], 0) if isinstance(v, list) and v and v[0] in ("bound", "bound-outer") else v) for k, v in level["bind"].items()}
        for sp in level["nodes"]:
            if sp["kind"] == "graph":
                rec(sp["inner"])

    rec(p)
    return p


def observe(prog, inputs, runner):
    h = H()
    try:
        g = build(T.set_async(prog, runner == "async"), h)
    except Exception as e:  # noqa: BLE001
        return {"build_error": f"{type(e).__name__}: {str(e)[:200]}"}
    spec = g.inputs
    x = execute(prog, inputs, runner=runner, h=h, graph=g, error_handling="continue")
    last = {}
    for c in h.calls:
        last[c.nid] = dict(c.args)
    return {
        "required": set(spec.required),
        "optional": set(spec.optional),
        "bound": set(spec.bound),
        "status": x.status,
        "error": None if x.exc is None else f"{type(x.exc).__name__}: {str(x.exc)[:150]}",
        "values": None if x.result is None else dict(x.result.values),
        "last_args": last,
    }


def compare(flat, nested, rn_in, rn_out):
    out = []
    if "build_error" in nested:
        return [("nested-graph-rejected", f"the nested form was rejected at construction: {nested['build_error']}")]
    def rin(s):
        return {rn_in.get(x, x) for x in s}
    if rin(flat["required"]) != nested["required"]:
        out.append(("required-inputs-differ", f"required {sorted(nested['required'])} vs flat {sorted(rin(flat['required']))}"))
    if rin(flat["optional"]) != nested["optional"]:
        out.append(("optional-inputs-differ", f"optional {sorted(nested['optional'])} vs flat {sorted(rin(flat['optional']))}"))
    if rin(flat["bound"]) != nested["bound"]:
        out.append(("bound-names-differ", f"bound {sorted(nested['bound'])} vs flat {sorted(rin(flat['bound']))}"))
    if nested["status"] != flat["status"] or nested["error"] != flat["error"]:
        out.append(("status-differs", f"nested run: {nested['status']} {nested['error']} / flat run: {flat['status']} {flat['error']}"))
        return out
    if flat["values"] is not None:
        exp = {rn_out.get(k, k): v for k, v in flat["values"].items()}
        if nested["values"] != exp:
            diff = sorted(k for k in set(exp) | set(nested["values"]) if exp.get(k) != nested["values"].get(k))
            out.append(("values-differ", f"values differ from the flat graph on {diff}: {jsonable({k: nested['values'].get(k) for k in diff[:2]})} vs {jsonable({k: exp.get(k) for k in diff[:2]})}"))
    if nested["last_args"] != flat["last_args"]:
        diff = sorted(k for k in set(flat["last_args"]) | set(nested["last_args"]) if flat["last_args"].get(k) != nested["last_args"].get(k))
        out.append(("inner-arguments-differ", f"functions {diff} received {jsonable({k: nested['last_args'].get(k) for k in diff[:2]})} instead of {jsonable({k: flat['last_args'].get(k) for k in diff[:2]})}"))
    return out


# ("DBi" = signature default everywhere AND a binding on the inner graph is deliberately NOT in the menu: the constructor
#  rejects that nested form by design - tests/test_bind_defaults.py::test_bound_value_overrides_signature_default documents
#  it as intended - so there is no nested graph to compare; a first version of this check reported it, a false alarm)
SRC_MENU = ["P", "D", "Bi", "Bo", "Bio"]


def configs(tier, seed):
    """yield (shape, src, out_default, nesting plan, rename flag)"""
    for N in (1, 2, 3) if tier == "quick" else (1, 2, 3, 4):
        P, O, E = (2, 2, 2) if N <= 3 else (2, 1, 1)
        for si, shape in enumerate(dag_shapes(N, P, O, E)):
            if tier == "quick" and N == 3 and (si + seed) % 60 != 0:
                continue
            if N == 4 and (si + seed) % 9 != 0:
                continue  # (N=4: a rotating ninth of the shapes per run; every slice is exhaustive in all other dimensions)
            exts, consumed, outs = shape_names(shape)
            if not outs:
                continue
            srcs = [dict(zip(exts, c)) for c in itertools.product(SRC_MENU, repeat=len(exts))] if len(exts) <= 1 or (N <= 2 and tier != "quick") else [dict(zip(exts, c)) for c in (("P", "P"), ("D", "Bi"), ("Bi", "Bo"), ("Bio", "P"), ("Bo", "D"), ("P", "Bio"))]
            for src in srcs:
                for od in ([set()] + ([set(consumed)] if consumed else [])):
                    for S in convex_subsets(shape):
                        yield shape, src, od, S


def run_config(acc, shape, src, od, S, tier):
    exts, consumed, outs = shape_names(shape)
    flat = flat_program(shape, src, od)
    ids = [NODE_IDS[j] for j in S]
    provided = {e: ["prov", e] for e in exts if src[e] == "P"}
    plans = []
    w1 = wrap(flat, ids, "w1")
    plans.append(("d1", w1, "w1"))
    w2 = wrap(w1, ["w1"], "w2")
    plans.append(("d2-around", w2, "w2"))
    others = [s["id"] for s in w1["nodes"] if s["id"] != "w1"]
    if others:
        # around: wrapper plus the next outer node when that stays convex (first outer node after / before)
        pass
    if len(ids) >= 2:
        inner_sub = copy.deepcopy(w1)
        wnode = next(s for s in inner_sub["nodes"] if s["id"] == "w1")
        wnode["inner"] = wrap(wnode["inner"], [ids[0]], "v1")
        plans.append(("d2-inside", inner_sub, "w1"))
    w3 = wrap(w2, ["w2"], "w3")
    plans.append(("d3", w3, "w3"))
    has_b = any(v in ("Bi", "Bo", "Bio") for v in src.values())
    for runner, falsy in [(r, f) for r in ("sync", "async") for f in ((False, True) if has_b else (False,))]:
        if falsy and runner == "async" and tier == "quick":
            continue
        fb = {e: (["bound-outer", e] if src[e] == "Bio" else ["bound", e]) for e in exts if src[e] in ("Bi", "Bo", "Bio", "DBi")}
        fprog = dict(flat, bind=fb) if fb else flat
        if falsy:
            # the values bound on the OUTER graph (and the only value of a singly bound input) are falsy / None;
            # a value bound on the inner graph under an outer binding stays a recognisable term
            fprog = _falsify(fprog)
        ref = observe(fprog, provided, runner)
        acc.evaluations += 1
        for pname, nested, wrapper in plans:
            if runner == "async" and pname in ("d3", "d2-around") and tier == "quick":
                continue
            np_, _ = place_bindings(nested, src, wrapper)
            if falsy:
                np_ = _falsify(np_)
            for rename in ((False,) if falsy else (False, True, "swap")):
                rn_in, rn_out = {}, {}
                cand = np_
                if rename == "swap":
                    # ONE with_inputs() call exchanging two wrapper inputs (a parallel rename that re-uses both names)
                    cand = copy.deepcopy(np_)
                    w = next(s for s in cand["nodes"] if s["id"] == wrapper)
                    w_ins, _ = spec_io(w)
                    outer_consumed = {p for s in cand["nodes"] if s["id"] != wrapper for p in spec_io(s)[0]}
                    sw = [p for p in w_ins if p.startswith("e") and p not in outer_consumed]
                    if len(sw) < 2:
                        continue
                    rn_in = {sw[0]: sw[1], sw[1]: sw[0]}
                    w["rename_in"] = rn_in
                    if cand.get("bind"):
                        cand["bind"] = {rn_in.get(k, k): v for k, v in cand["bind"].items()}
                elif rename:
                    cand = copy.deepcopy(np_)
                    w = next(s for s in cand["nodes"] if s["id"] == wrapper)
                    w_ins, w_outs = spec_io(w)
                    outer_consumed = {p for s in cand["nodes"] if s["id"] != wrapper for p in spec_io(s)[0]}
                    rn_in = {p: p + "_r" for p in w_ins if p.startswith("e") and p not in outer_consumed}
                    rn_out = {o: o + "_r" for o in w_outs[:1]}
                    if not rn_in and not rn_out:
                        continue
                    if rn_in:
                        w["rename_in"] = rn_in
                        w["rename_in_chain"] = [{k: k + "_t" for k in rn_in}, {k + "_t": v for k, v in rn_in.items()}]
                    if rn_out:
                        w["rename_out"] = rn_out
                        # two successive calls through a temporary name (the final mapping is rn_out)
                        w["rename_out_chain"] = [{k: k + "_t" for k in rn_out}, {k + "_t": v for k, v in rn_out.items()}]
                        for s in cand["nodes"]:
                            if s["id"] != wrapper and s["kind"] == "fn":
                                hit = {p: rn_out[p] for p in s["params"] if p in rn_out}
                                if hit:
                                    s["rename_in"] = hit
                    # outer bindings of renamed inputs move to the new name
                    if cand.get("bind"):
                        cand["bind"] = {rn_in.get(k, k): v for k, v in cand["bind"].items()}
                ins = {rn_in.get(k, k): v for k, v in provided.items()}
                got = observe(cand, ins, runner)
                acc.evaluations += 1
                key = (tuple(shape), tuple(sorted(src.items())), tuple(sorted(od)), S, pname, rename, runner, falsy)
                acc.key(key)
                vs = compare(ref, got, rn_in, rn_out)
                acc.outcomes[(pname, rename, "ok" if not vs else vs[0][0])] += 1
                for sym, msg in vs:
                    placement = sorted(set(src.values()))
                    acc.violation(
                        {"symptom": sym, "renamed": rename, "bindings": [b for b in placement if b.startswith("B")], "upstream_default": bool(od), **({"falsy_bound_values": True} if falsy else {})},
                        {"flat": fprog, "nested": cand, "inputs": ins, "runner": runner, "rn_in": rn_in, "rn_out": rn_out, "flat_inputs": provided},
                        f"{pname} (wrapped {ids}, sources {src}, renamed={rename}): {msg}",
                        size=len(repr(cand)),
                    )
    return plans


def repeated_runs(acc):
    """Nesting equals inlining on EVERY run of one graph object, not only the first: inner functions mutate their
    mutable signature defaults (list, dict member), the flat graph and each nested form (depth 1-3, plain and with a
    renamed wrapper input, inner default surfacing through the wrapper) are run three times on one runner."""
    _repeated_runs(acc, "own")
    _repeated_runs(acc, "shared")


def _repeated_runs(acc, variant):
    """variant 'own': each function has its own defaulted parameter; 'shared': both functions take ONE parameter name with the
    same mutable default (in the flat graph each node resolves - and copies - it for itself)."""
    f = T.fn("f", ["x", "bag"], ["out"], defaults={"bag": {"$list": []}}, behav={"py": "(bag.append(x), tuple(bag))[1]"})
    if variant == "own":
        g = T.fn("g", ["out", "seen"], ["res"], defaults={"seen": {"$list": [["s", 0]]}}, behav={"py": "(seen.append(len(seen)), (out, tuple(seen)))[1]"})
    else:
        g = T.fn("g", ["out", "bag"], ["res"], defaults={"bag": {"$list": []}}, behav={"py": "(bag.append(('g', len(bag))), (out, tuple(bag)))[1]"})
    flat = T.prog([f, g])
    forms = {"flat": (flat, {})}
    w1 = wrap(flat, ["f"], "w1")
    forms["depth1"] = (w1, {})
    w1r = copy.deepcopy(w1)
    w1r["nodes"][0]["rename_in"] = {"x": "xx"}
    forms["depth1-renamed"] = (w1r, {"x": "xx"})
    w2 = wrap(w1, ["w1"], "w2")
    forms["depth2"] = (w2, {})
    w2r = wrap(w1r, ["w1"], "w2")
    w2r["nodes"][0]["rename_in"] = {"xx": "xxx"}
    forms["depth2-renamed-twice"] = (w2r, {"x": "xxx"})
    both = wrap(flat, ["f", "g"], "wb")
    forms["both-wrapped"] = (both, {})
    forms["depth3"] = (wrap(w2, ["w2", "g"], "w3"), {})
    for runner in ("sync", "async"):
        ref = None
        for name, (prog, rn) in forms.items():
            h = H()
            try:
                gr = build(T.set_async(prog, runner == "async"), h)
            except Exception as e:  # noqa: BLE001
                acc.violation({"symptom": "nested-graph-rejected", "repeated": True}, {"repeated_runs": name, "runner": runner}, f"{name}: rejected at construction: {type(e).__name__}: {e}")
                continue
            views = []
            for k in range(3):
                x = execute(prog, {rn.get("x", "x"): ["prov", "x"]}, runner=runner, h=h, graph=gr, error_handling="continue")
                acc.evaluations += 1
                views.append((x.status, None if x.result is None else tuple(sorted(x.result.values.items(), key=repr))))
            acc.key(("repeated", variant, name, runner))
            if name == "flat":
                ref = views
                if len(set(views)) != 1:
                    acc.counters["flat_graph_runs_differ"] += 1  # (C18's business; recorded, the comparison below still applies run by run)
                continue
            for k, (v, r) in enumerate(zip(views, ref)):
                if v != r:
                    acc.violation({"symptom": "values-differ", "repeated_run": True, "form": name.split("-")[0], **({"shared_default_name": True} if variant == "shared" else {})}, {"repeated_runs": name, "runner": runner, "variant": variant}, f"{name} ({variant} defaulted parameter), run #{k + 1} of the same graph object: {jsonable(v)} but the flat graph's run #{k + 1} gives {jsonable(r)}", size=k)
                    break


def sibling_bindings(acc):
    """A nested graph receives exactly the values addressed to ITS inputs: two (three) sibling nested graphs bind the SAME input name
    to different values - each inner function gets its own graph's value, in every node-list order, at depth 1 and 2, both runners;
    a binding of that name on the enclosing graph overrides all of them."""
    subs = []
    for i, tag in enumerate(("sa", "sb", "sc")):
        ins = ["x"] if i == 0 else [f"o{i - 1}"]
        subs.append(T.gnode(tag, T.prog([T.fn(f"f{tag}", ins + ["k"], [f"o{i}"])], name=tag, bind={"k": ["bound-in", tag]})))
    for n in (2, 3):
        for perm in itertools.permutations(range(n)):
            for depth in (1, 2):
                for outer_bind in (False, True):
                    for runner in ("sync", "async"):
                        nodes = [copy.deepcopy(subs[i]) for i in perm]
                        if depth == 2:
                            nodes = [T.gnode("w_" + sp["id"], T.prog([sp], name="w_" + sp["id"])) for sp in nodes]
                        prog = T.prog(nodes)
                        if outer_bind:
                            prog["bind"] = {"k": ["bound-outer", "k"]}
                        h = H()
                        x = execute(T.set_async(prog, runner == "async"), {"x": ["prov", "x"]}, runner=runner, h=h, error_handling="continue")
                        acc.evaluations += 1
                        acc.key(("sibling-bindings", n, perm, depth, outer_bind, runner))
                        got = {c.nid: c.args.get("k") for c in h.calls}
                        exp = {f"f{t}": (("bound-outer", "k") if outer_bind else ("bound-in", t)) for t in ("sa", "sb", "sc")[:n]}
                        if x.status != "completed" or got != exp:
                            acc.violation({"symptom": "inner-arguments-differ", "sibling_bindings": True, "outer_bind": outer_bind}, {"sibling_bindings": True}, f"{n} sibling nested graphs binding k differently (order {perm}, depth {depth}, outer binding {outer_bind}, {runner}): status {x.status}, inner functions received k = {jsonable(got)}, expected {jsonable(exp)}")


def inner_select_renamed_outputs(acc):
    """'exposes exactly its (selected) outputs': the inner graph carries a default selection (every ordered non-empty selection of its
    three outputs) and the wrapper renames one selected output, or swaps two, or renames none; depth 1 and 2, both runners.  The
    values of the flat graph must arrive under the right exposed names and nothing else may appear."""
    base = [T.fn("fa", ["x"], ["a0"]), T.fn("fb", ["a0"], ["b0"]), T.fn("fc", ["a0"], ["c0"])]
    outs = ["a0", "b0", "c0"]
    for runner in ("sync", "async"):
        ref = observe(T.prog(copy.deepcopy(base)), {"x": ["prov", "x"]}, runner)
        acc.evaluations += 1
        for r in (1, 2, 3):
            for sel in itertools.permutations(outs, r):
                renames = [{}] + [{o: o + "_r"} for o in sel] + ([{sel[0]: sel[1], sel[1]: sel[0]}] if len(sel) >= 2 else [])
                for rn in renames:
                    for depth in (1, 2):
                        inner = T.prog(copy.deepcopy(base), name="inr", select=list(sel))
                        node = T.gnode("inr", inner, **({"rename_out": rn} if rn else {}))
                        prog = T.prog([node])
                        if depth == 2:
                            prog["name"] = "mid"
                            prog = T.prog([T.gnode("mid", prog)])
                        got = observe(prog, {"x": ["prov", "x"]}, runner)
                        acc.evaluations += 1
                        acc.key(("inner-select-renamed", sel, tuple(sorted(rn.items())), depth, runner))
                        exp = {rn.get(o, o): ref["values"][o] for o in sel}
                        if got.get("status") != "completed" or got.get("values") != exp:
                            acc.violation({"symptom": "values-differ", "inner_select": True, "renamed": bool(rn)}, {"inner_select_renamed_outputs": True}, f"inner graph .select{sel}, wrapper with_outputs({rn}), depth {depth}, {runner}: got {got.get('status')} {jsonable(got.get('values'))}, expected exactly {jsonable(exp)}")


OPTION_LIKE_NAMES = ["values", "select", "max_iterations", "entrypoint", "on_missing", "on_internal_override", "error_handling", "event_processors", "graph", "max_concurrency", "map_over", "clone", "self", "runner", "kwargs"]


def option_like_names(acc):
    """An inner input may carry any legal name - also one that looks like an option of run(): the value addressed to it must
    reach the inner function exactly as in the flat graph (depth 1 and 2, both runners)."""
    for nm in OPTION_LIKE_NAMES:
        flat = T.prog([T.fn("f", [nm], ["a0"]), T.fn("g", ["a0"], ["b0"])])
        w1 = wrap(flat, ["f"], "w1")
        w2 = wrap(w1, ["w1"], "w2")
        for runner in ("sync", "async"):
            ref = observe(flat, {nm: ["prov", nm]}, runner)
            acc.evaluations += 1
            if ref.get("status") != "completed":
                acc.observations[f"flat graph with an input named {nm!r} does not complete (not judged)"] += 1
                continue
            for pname, prog in (("d1", w1), ("d2", w2)):
                got = observe(prog, {nm: ["prov", nm]}, runner)
                acc.evaluations += 1
                acc.key(("option-like-name", nm, pname, runner))
                for sym, msg in compare(ref, got, {}, {}):
                    acc.violation({"symptom": sym, "option_like_input_name": True}, {"option_like_names": nm, "runner": runner}, f"inner input named {nm!r}, {pname}, {runner}: {msg}")


def shards(tier, seed):
    k = 64 if tier == "quick" else 256
    return [(tier, seed, s, k) for s in range(k)]


def run_shard(shard):
    tier, seed, s, k = shard
    acc = Acc()
    if s == 0:
        repeated_runs(acc)
    if s == 1:
        option_like_names(acc)
    if s == 2:
        sibling_bindings(acc)
    if s == 3:
        inner_select_renamed_outputs(acc)
    for ci, (shape, src, od, S) in enumerate(configs(tier, seed)):
        if ci % k != s:
            continue
        plans = run_config(acc, shape, src, od, S, tier)
        if ci % 2003 == 0:
            acc.sample({"shape": jsonable(shape), "sources": src, "wrapped": list(S), "plans": [p[0] for p in plans]}, 2)
    return acc


def coverage_extra(acc, tier, seed):
    return {"bounds": {"dag": "N<=3 (quick: N=3 sliced 1/60 by seed), P<=2,O<=2,E<=2" if tier == "quick" else "N<=3 complete, N=4 (P<=2,O<=1,E<=1) a rotating 1/9 of the shapes (by VERIF_SEED)", "depth": 3, "source_menu": SRC_MENU}}


def replay(rep):
    if "inner_select_renamed_outputs" in rep:
        acc = Acc()
        inner_select_renamed_outputs(acc)
        return [v["message"] for v in acc.violations.values()]
    if "sibling_bindings" in rep:
        acc = Acc()
        sibling_bindings(acc)
        return [v["message"] for v in acc.violations.values()]
    if "option_like_names" in rep:
        acc = Acc()
        option_like_names(acc)
        return [v["message"] for v in acc.violations.values()]
    if "repeated_runs" in rep:
        acc = Acc()
        repeated_runs(acc)
        return [v["message"] for v in acc.violations.values()]
    ref = observe(rep["flat"], rep["flat_inputs"], rep["runner"])
    got = observe(rep["nested"], rep["inputs"], rep["runner"])
    return [m for _, m in compare(ref, got, rep["rn_in"], rep["rn_out"])]
