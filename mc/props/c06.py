"""C06 - renames are transparent: only wiring names change, never what is computed (DESIGN 4, C06)."""
from __future__ import annotations

import itertools

from .. import templates as T
from ..dsl import H, build, build_node, canon, execute, jsonable
from ..evidence import Acc
from ..progen import dag_program, dag_shapes, shape_names
from ..refsem import eval_dag

PID = "C06"
LEVEL = "exploration"
TECHNIQUE = "exhaustive enumeration of rename histories (sequences of batches, each a partial injective map incl. swaps, rotations, chains through fresh names) on every node kind, checked after every batch against a simultaneous-substitution dict model and by executing the renamed node"
LEVEL_TEXT = (
    "for function nodes, if/else and route gates, interrupts and nested-graph nodes (with inner defaults, inner bindings, map_over and clone "
    "lists) EVERY history of <=K rename batches over inputs, outputs and the node name (through the constructor and with_*) is applied; after "
    "every batch inputs/outputs/defaults/default lookups/types/map configuration must match the model, and executing the renamed node must "
    "deliver to each underlying parameter the value addressed by its current name and return results under the current output names. Plus "
    "whole-graph alpha-renaming of every small DAG program."
)
LEVEL_NOTE = 'model = dict current->original with simultaneous substitution per batch (mc/props/c06.py:Model); name pool = current names + 2 fresh names; also: ancestors re-checked after relatives were derived, execution under both runners, enclosing-graph bindings of renamed inputs, node vs renamed relative on one cache'
RULE = "node kinds x all histories of K batches (quick K=2, thorough K=3; K=4 for 2 names); distinct_nontrivial = distinct (kind, history) with at least one re-used name (swap / rotation / chain)"
ASSUMPTIONS = ["identity renames (a->a) are not in the alphabet", "batch ids only need to be increasing (module-level counter)"]

FRESH = ["f1", "f2"]
FRESH_OUT = ["g1", "g2"]  # separate pool: an input and an output sharing a name would create a self-loop (harness artefact)


def batches(current, fresh=FRESH):
    """All non-empty partial injective renames of ``current`` into current + fresh that keep names distinct."""
    pool = list(current) + [f for f in fresh if f not in current]
    out = []
    n = len(current)
    for r in range(1, n + 1):
        for src in itertools.combinations(current, r):
            rest = [c for c in current if c not in src]
            cand = [p for p in pool if p not in rest]
            for tgt in itertools.permutations(cand, r):
                if any(s == t for s, t in zip(src, tgt)):
                    continue
                out.append(dict(zip(src, tgt)))
    return out


class Model:
    """current name -> original name, simultaneous substitution per batch."""

    def __init__(self, names):
        self.cur = {n: n for n in names}
        self.order = list(names)  # originals in declaration order

    def apply(self, batch):
        self.cur = {batch.get(c, c): o for c, o in self.cur.items()}

    @property
    def names(self):
        inv = {o: c for c, o in self.cur.items()}
        return tuple(inv[o] for o in self.order)

    def current_of(self, orig):
        return next(c for c, o in self.cur.items() if o == orig)


DB, DC = ("dflt", "b"), ("dflt", "c")


def subject(kind, h, ctor=None):
    """-> (node, input originals, output originals, info).  ``ctor``: first input batch applied through the
    constructor's rename_inputs= instead of with_inputs()."""
    if ctor:
        n, ins, outs, spec = subject(kind, _Collect())
        spec = dict(spec, ctor_rename_in=dict(ctor))
        return build_node(spec, h), ins, outs, spec
    return _subject(kind, h)


class _Collect(H):
    pass


def _subject(kind, h):
    if kind == "fn":
        spec = T.fn("nf", ["a", "b", "c"], ["o1", "o2"], defaults={"b": list(DB), "c": list(DC)}, types={"a": int, "b": str, "c": float, "return": tuple[int, str]})
        return build_node(spec, h), ["a", "b", "c"], ["o1", "o2"], spec
    if kind == "fn2":
        spec = T.fn("nf", ["a", "b"], ["o1"], defaults={"b": list(DB)}, types={"a": int, "b": str})
        return build_node(spec, h), ["a", "b"], ["o1"], spec
    if kind == "ifelse":
        spec = T.ifelse("ng", ["a", "b"], "t1", "t2", defaults={"b": list(DB)}, types={"a": int, "b": str}, behav={"seq": [True]})
        return build_node(spec, h), ["a", "b"], [], spec
    if kind == "route":
        spec = T.route("ng", ["a", "b"], ["t1", "t2"], defaults={"b": list(DB)}, types={"a": int, "b": str}, behav={"seq": ["t2"]})
        return build_node(spec, h), ["a", "b"], [], spec
    if kind == "interrupt":
        # single output: a multi-output handler answers with a dict keyed by output names (its own contract)
        spec = T.interrupt("ni", ["a", "b"], ["o1"], defaults={"b": list(DB)}, types={"a": int, "b": str}, behav="answer")
        return build_node(spec, h), ["a", "b"], ["o1"], spec
    if kind in ("graph", "graph-map", "graph-map2"):
        inner = T.prog([T.fn("sub", ["x", "z", "y"], ["s", "t"], defaults={"y": ["dflt", "y"]}, types={"x": int, "y": str, "z": float})], name="gn", bind={"z": ["bound", "z"]})
        spec = T.gnode("gn", inner)
        n = build_node(spec, h)
        ins = list(n.inputs)
        if kind == "graph-map":
            n = n.map_over("x", clone=["y"])
        if kind == "graph-map2":
            n = n.map_over("y", "x", mode="product")  # declared order differs from the inner graph's input order
        return n, ins, ["s", "t"], spec
    raise ValueError(kind)


def check_static(kind, node, mi, mo, name, pool):
    """Attribute-level agreement with the model after a batch."""
    out = []
    if node.inputs != mi.names:
        out.append(("inputs", f"inputs {node.inputs} expected {mi.names}"))
    if node.outputs[: len(mo.order)] != mo.names:
        out.append(("outputs", f"outputs {node.outputs} expected {mo.names}"))
    if node.name != name:
        out.append(("name", f"name {node.name} expected {name}"))
    if kind in ("fn", "fn2", "ifelse", "route", "interrupt"):
        dflt = {"b": DB, "c": DC}
        types = {"a": int, "b": str, "c": float}
        exp_defaults = {mi.current_of(o): dflt[o] for o in mi.order if o in dflt}
        if dict(node.defaults) != exp_defaults:
            out.append(("defaults", f"defaults {dict(node.defaults)} expected {exp_defaults}"))
        for p in pool:
            exp_has = p in exp_defaults
            if node.has_default_for(p) != exp_has or node.has_signature_default_for(p) != exp_has:
                out.append(("has_default_for", f"has_default_for({p})={node.has_default_for(p)} expected {exp_has}"))
            if exp_has and (node.get_default_for(p) != exp_defaults[p] or node.get_signature_default_for(p) != exp_defaults[p]):
                out.append(("get_default_for", f"get_default_for({p})={node.get_default_for(p)} expected {exp_defaults[p]}"))
        for o in mi.order:
            c = mi.current_of(o)
            if node.get_input_type(c) is not types[o]:
                out.append(("input_type", f"get_input_type({c})={node.get_input_type(c)} expected {types[o]} (parameter {o})"))
    else:
        types = {"x": int, "y": str, "z": float}
        for o in mi.order:
            c = mi.current_of(o)
            exp_has = o in ("y", "z")
            if node.has_default_for(c) != exp_has:
                out.append(("graphnode-has_default_for", f"has_default_for({c}) = {node.has_default_for(c)} but inner parameter {o} {'has' if exp_has else 'has no'} default/binding"))
            if exp_has:
                try:
                    got = node.get_default_for(c)
                except KeyError:
                    got = "<KeyError>"
                exp = ("dflt", "y") if o == "y" else ("bound", "z")
                if got != exp:
                    out.append(("graphnode-get_default_for", f"get_default_for({c})={got} expected {exp} (inner {o})"))
            if node.has_signature_default_for(c) != (o == "y"):
                out.append(("graphnode-has_signature_default_for", f"has_signature_default_for({c})={node.has_signature_default_for(c)} for inner {o}"))
            if node.get_input_type(c) is not types[o]:
                out.append(("graphnode-input_type", f"get_input_type({c})={node.get_input_type(c)} expected {types[o]} (inner {o})"))
        for p in pool:
            if p not in node.inputs and node.has_default_for(p):
                out.append(("graphnode-has_default_for", f"has_default_for({p}) True for a name that is not an input"))
        if kind == "graph-map":
            mc = node.map_config
            if mc is None or list(mc[0]) != [mi.current_of("x")]:
                out.append(("map_over", f"map_over params {mc and mc[0]} expected {[mi.current_of('x')]}"))
            if node._clone != [mi.current_of("y")]:
                out.append(("clone", f"clone list {node._clone} expected {[mi.current_of('y')]}"))
        if kind == "graph-map2":
            mc = node.map_config
            if mc is None or list(mc[0]) != [mi.current_of("y"), mi.current_of("x")]:
                out.append(("map_over", f"map_over params {mc and mc[0]} expected {[mi.current_of('y'), mi.current_of('x')]} (declared order)"))
    return out


def check_exec(kind, node, mi, mo, h, runner="sync"):
    """Execute the renamed node in a small graph and compare what the underlying parameters received."""
    from hypergraph import Graph

    from ..dsl import run_async, run_sync

    out = []
    n0 = len(h.calls)
    vals = {o: ("val", o) for o in mi.order}
    if runner == "async":
        run_sync = lambda g_, ins_, h_: run_async(g_, ins_, h_, None)  # noqa: E731 - the async twin of every executor
    if kind in ("fn", "fn2", "interrupt"):
        g = Graph([node])
        ins = {mi.current_of("a"): vals["a"]}
        exp_args = {"a": vals["a"], "b": DB}
        if "c" in mi.order:
            ins[mi.current_of("b")] = vals["b"]
            exp_args = {"a": vals["a"], "b": vals["b"], "c": DC}
        if kind == "interrupt":
            res = run_async(g, ins, h, None)
        else:
            res = run_sync(g, ins, h)
        call = h.calls[n0]
        if call.args != exp_args:
            out.append(("delivery", f"function received {jsonable(call.args)} expected {jsonable(exp_args)}"))
        if set(res.values) != set(mo.names):
            out.append(("result-names", f"results under {sorted(res.values)} expected {sorted(mo.names)}"))
        else:
            for i, o in enumerate(mo.order):
                v = res.values[mo.current_of(o)]
                if kind == "interrupt":
                    ok = v[0] == "ans" and v[2] == i
                else:
                    ok = v[1] == i if len(mo.order) > 1 else v[1] == 0
                if not ok:
                    out.append(("result-position", f"output {mo.current_of(o)} holds {jsonable(v)} (expected the value of original output {o})"))
    elif kind in ("ifelse", "route"):
        t1 = build_node(T.fn(f"t1", [], ["r1"], shared_ok=True), h) if "t1" not in h.specs else h._t1
        t2 = build_node(T.fn(f"t2", [], ["r2"], shared_ok=True), h) if "t2" not in h.specs else h._t2
        h._t1, h._t2 = t1, t2
        g = Graph([node, t1, t2])
        res = run_sync(g, {mi.current_of("a"): vals["a"]}, h)
        call = next(c for c in h.calls[n0:] if c.nid == "ng")
        if call.args != {"a": vals["a"], "b": DB}:
            out.append(("delivery", f"gate function received {jsonable(call.args)}"))
    else:
        g = Graph([node])
        if kind == "graph":
            ins = {mi.current_of("x"): vals["x"]}
            res = run_sync(g, ins, h)
            call = h.calls[n0]
            exp_args = {"x": vals["x"], "y": ("dflt", "y"), "z": ("bound", "z")}
            if call.args != exp_args:
                out.append(("graphnode-delivery", f"inner function received {jsonable(call.args)} expected {jsonable(exp_args)}"))
            if set(res.values) != set(mo.names):
                out.append(("graphnode-result-names", f"results under {sorted(res.values)} expected {sorted(mo.names)}"))
            else:
                for i, o in enumerate(mo.order):
                    if res.values[mo.current_of(o)][1] != i:
                        out.append(("graphnode-result-position", f"output {mo.current_of(o)} does not hold original output {o}"))
            # the same name bound on the ENCLOSING graph under its current external name overrides the inner binding
            # (and an enclosing binding of the defaulted input overrides the inner default)
            for orig, tok in (("z", ("outer", "z")), ("y", ("outer", "y"))):
                n1 = len(h.calls)
                gb = g.bind(**{mi.current_of(orig): tok})
                run_sync(gb, dict(ins), h)
                got = h.calls[n1].args.get(orig)
                if got != tok:
                    out.append(("graphnode-outer-binding", f"enclosing graph binds {mi.current_of(orig)} (inner parameter {orig}) to {jsonable(tok)} but the inner function received {jsonable(got)}"))
        elif kind == "graph-map2":
            xs, ys = [("i", 0), ("i", 1)], [("j", 0), ("j", 1), ("j", 2)]
            res = run_sync(g, {mi.current_of("x"): list(xs), mi.current_of("y"): list(ys)}, h)
            calls = h.calls[n0:]
            got = [(c.args.get("y"), c.args.get("x")) for c in calls]
            exp = [(y, x) for y in ys for x in xs]  # row-major in the DECLARED map_over order (y, x)
            if got != exp or any(c.args.get("z") != ("bound", "z") for c in calls):
                out.append(("graphnode-map-product-order", f"product map visited (y, x) = {jsonable(got)} expected {jsonable(exp)}"))
            if set(res.values) != set(mo.names) or any(len(v) != 6 for v in res.values.values()):
                out.append(("graphnode-map-result", f"results {jsonable(res.values)} under {sorted(mo.names)} expected lists of 6"))
        else:
            ins = {mi.current_of("x"): [("i", 0), ("i", 1)], mi.current_of("y"): ["cfg"]}
            res = run_sync(g, ins, h)
            calls = h.calls[n0:]
            got = [c.args.get("x") for c in calls]
            if got != [("i", 0), ("i", 1)] or any(c.args.get("z") != ("bound", "z") for c in calls):
                out.append(("graphnode-map-delivery", f"mapped inner function received {[jsonable(c.args) for c in calls]}"))
            ids = {id(c.args.get("y")) for c in calls}
            if len(ids) != len(calls) or id(ins[mi.current_of("y")]) in ids:
                out.append(("graphnode-clone", "clone list did not follow the rename: broadcast value not copied per item"))
            if set(res.values) != set(mo.names) or any(len(v) != 2 for v in res.values.values()):
                out.append(("graphnode-map-result", f"results {jsonable(res.values)} under {sorted(mo.names)} expected lists of 2"))
    return out


def check_cached_pair(kind, spec, hist, mi, mo, h):
    """Caching x renames: the un-renamed node and its renamed relative (same function, same argument values) run
    against ONE cache, in both orders.  Whether the second run is a hit or a miss is not C06's business; what each
    returns is: results under ITS current output names, each holding the value of the right original output."""
    from hypergraph import Graph
    from hypergraph.cache import InMemoryCache

    from ..dsl import run_sync, touch

    out = []
    spec2 = dict(spec, cache=True, shared_ok=True)
    spec2.pop("ctor_rename_in", None)
    a = build_node(spec2, h)
    b = build_node(spec2, h)
    for attr, mapping in hist:
        touch(b)
        b = b.with_inputs(dict(mapping)) if attr == "inputs" else (b.with_outputs(dict(mapping)) if attr == "outputs" else b.with_name(mapping))
    vals = {o: ("val", o) for o in mi.order}
    fed = ["a"] + (["b"] if "c" in mi.order else [])
    ins_a = {o: vals[o] for o in fed}
    ins_b = {mi.current_of(o): vals[o] for o in fed}
    for order in ("orig-first", "renamed-first"):
        cache = InMemoryCache()
        seq = [("orig", a, ins_a), ("renamed", b, ins_b)]
        if order == "renamed-first":
            seq.reverse()
        for who, node, ins in seq:
            res = run_sync(Graph([node]), dict(ins), h, cache=cache)
            names = tuple(mo.order) if who == "orig" else mo.names
            if set(res.values) != set(names):
                out.append(("cached-result-names", f"{order}: the {who} node returned results under {sorted(res.values)} expected {sorted(names)}"))
                continue
            for i, o in enumerate(mo.order):
                v = res.values[o if who == "orig" else mo.current_of(o)]
                if not (v[1] == i if len(mo.order) > 1 else v[1] == 0):
                    out.append(("cached-result-position", f"{order}: output {o if who == 'orig' else mo.current_of(o)} of the {who} node holds {jsonable(v)} (expected the value of original output {o})"))
    return out


def run_history(kind, hist, acc, via_ctor=False):
    """hist: list of (attr, mapping).  via_ctor: the first batch (inputs) goes through the constructor."""
    h = H()
    vs = []
    if via_ctor:
        try:
            node, in_orig, out_orig, spec = subject(kind, h, ctor=hist[0][1])
        except Exception as e:  # noqa: BLE001
            return [("rename-rejected", f"constructor rename_inputs={hist[0][1]} rejected: {type(e).__name__}: {e}")]
        mi, mo = Model(in_orig), Model(out_orig)
        mi.apply(hist[0][1])
        hist = hist[1:]
        name = node.name
        pool = set(in_orig) | set(FRESH) | set(out_orig) | set(FRESH_OUT)
        try:
            st0 = check_static(kind, node, mi, mo, name, pool)
        except Exception as e:  # noqa: BLE001
            st0 = [("lookup-raised", f"{type(e).__name__}: {e}")]
        if st0:
            return [(s_, f"after constructor rename: {m}") for s_, m in st0]
    else:
        node, in_orig, out_orig, spec = subject(kind, h)
        mi, mo = Model(in_orig), Model(out_orig)
        name = node.name
        pool = set(in_orig) | set(FRESH) | set(out_orig) | set(FRESH_OUT)
    from ..dsl import touch
    import copy as _copy

    lineage = []  # (node, input model, output model, name) of every ancestor of the final node
    for bi, (attr, mapping) in enumerate(hist):
        lineage.append((node, _copy.deepcopy(mi), _copy.deepcopy(mo), name))
        try:
            touch(node)  # the receiver has been used before each rename
            if attr == "inputs":
                node = node.with_inputs(dict(mapping))
                mi.apply(mapping)
            elif attr == "outputs":
                node = node.with_outputs(dict(mapping))
                mo.apply(mapping)
            else:
                node = node.with_name(mapping)
                name = mapping
        except Exception as e:  # noqa: BLE001
            vs.append(("rename-rejected", f"legal rename batch {mapping} rejected: {type(e).__name__}: {e}"))
            break
        try:
            st = check_static(kind, node, mi, mo, name, pool)
        except Exception as e:  # noqa: BLE001 - a lookup the model says must succeed raised
            st = [("lookup-raised", f"{type(e).__name__}: {e}")]
        vs += [(s, f"after batch {bi + 1}: {m}") for s, m in st]
        if st:
            break
    if not vs and lineage:
        # relatives: (1) a sibling derived LATER from the final node's parent (every input name moved to another legal name in one
        # call) and a child derived from the final node itself must not change what the final node does; (2) every ancestor still
        # answers according to ITS OWN history, and the root still computes what it computed before anything was derived from it
        par, pmi, _, _ = lineage[-1]
        for base, model in ((par, pmi), (node, mi)):
            cur = list(model.names)
            alts = [b for b in batches(cur) if len(b) == len(cur)] or batches(cur)
            if alts:
                try:
                    base.with_inputs(dict(alts[0]))
                except Exception:  # noqa: BLE001 - the decoy is optional
                    pass
        for ai, (anc, ami, amo, aname) in enumerate(lineage):
            try:
                st = check_static(kind, anc, ami, amo, aname, pool)
            except Exception as e:  # noqa: BLE001
                st = [("lookup-raised", f"{type(e).__name__}: {e}")]
            vs += [("ancestor-changed-by-derivation", f"the node as it was before batch {ai + 1} no longer answers according to its own history after relatives were derived from it: {m}") for _, m in st[:1]]
            if st:
                break
        if not vs:
            anc, ami, amo, _ = lineage[0]
            try:
                ev = check_exec(kind, anc, ami, amo, h)
            except Exception as e:  # noqa: BLE001
                ev = [("x", f"{type(e).__name__}: {str(e)[:150]}")]
            vs += [("ancestor-changed-by-derivation", f"running the ORIGINAL node after relatives were derived from it: {m}") for _, m in ev[:1]]
    if not vs and kind != "interrupt":
        try:
            vs += [(s_, f"under the AsyncRunner: {m}") for s_, m in check_exec(kind, node, mi, mo, h, runner="async")]
        except Exception as e:  # noqa: BLE001
            vs.append(("execution-failed" if kind not in ("graph", "graph-map", "graph-map2") else "graphnode-execution-failed", f"running the renamed node under the AsyncRunner failed: {type(e).__name__}: {str(e)[:150]}"))
    if not vs:
        try:
            vs += check_exec(kind, node, mi, mo, h)
        except Exception as e:  # noqa: BLE001
            vs.append(("execution-failed" if kind not in ("graph", "graph-map", "graph-map2") else "graphnode-execution-failed", f"running the renamed node failed: {type(e).__name__}: {str(e)[:150]}"))
    if not vs and kind in ("fn", "fn2") and not via_ctor:
        try:
            vs += check_cached_pair(kind, spec, hist, mi, mo, h)
        except Exception as e:  # noqa: BLE001
            vs.append(("cached-execution-failed", f"running the node and its renamed relative against one cache failed: {type(e).__name__}: {str(e)[:150]}"))
    return vs


def histories(kind, K, in_names, out_names):
    """All histories of exactly K batches over inputs (and, for the last batch, also outputs / name)."""
    def rec(k, cur_in, cur_out, acc_):
        if k == 0:
            yield list(acc_)
            return
        for b in batches(cur_in):
            mi = Model(cur_in)
            mi.apply(b)
            acc_.append(("inputs", b))
            yield from rec(k - 1, list(mi.cur.keys()), cur_out, acc_)
            acc_.pop()
        if cur_out:
            for b in batches(cur_out, FRESH_OUT):
                mo = Model(cur_out)
                mo.apply(b)
                acc_.append(("outputs", b))
                yield from rec(k - 1, cur_in, list(mo.cur.keys()), acc_)
                acc_.pop()
        if k == 1:
            acc_.append(("name", "renamed_node"))
            yield list(acc_)
            acc_.pop()

    yield from rec(K, list(in_names), list(out_names), [])


SUBJECTS = {"fn": (["a", "b", "c"], ["o1", "o2"]), "fn2": (["a", "b"], ["o1"]), "ifelse": (["a", "b"], []), "route": (["a", "b"], []), "interrupt": (["a", "b"], ["o1"]), "graph": (None, ["s", "t"]), "graph-map": (None, ["s", "t"]), "graph-map2": (None, ["s", "t"])}


def _plan(tier):
    if tier == "quick":
        return [("fn2", 1), ("fn2", 2), ("fn2", 3), ("fn", 1), ("fn", 2), ("ifelse", 2), ("route", 2), ("interrupt", 2), ("graph", 1), ("graph", 2), ("graph-map", 1), ("graph-map", 2), ("graph-map2", 1), ("graph-map2", 2)]
    return [("fn2", 1), ("fn2", 2), ("fn2", 3), ("fn2", 4), ("fn", 1), ("fn", 2), ("fn", 3), ("ifelse", 3), ("route", 3), ("interrupt", 2), ("interrupt", 3), ("graph", 1), ("graph", 2), ("graph", 3), ("graph-map", 2), ("graph-map", 3), ("graph-map2", 2), ("graph-map2", 3)]


def shards(tier, seed):
    out = []
    for pi, (kind, K) in enumerate(_plan(tier)):
        n = 1 if K == 1 else (16 if K == 2 else 64)
        out += [(tier, seed, pi, s, n) for s in range(n)]
    out.append((tier, seed, "alpha", 0, 1))
    return out


def _in_names(kind):
    if SUBJECTS[kind][0] is not None:
        return SUBJECTS[kind][0]
    h = H()
    n, ins, outs, _ = subject(kind, h)
    return ins


def alpha(acc, tier):
    """Whole-graph alpha-renaming of value names on every small DAG program."""
    for N in (1, 2, 3):
        for si, shape in enumerate(dag_shapes(N, 2, 2, 1)):
            if N == 3 and tier == "quick" and si % 7 != 0:
                continue
            exts, consumed, outs = shape_names(shape)
            prog, provided = dag_program(shape, {e: frozenset("P") for e in exts}, set(consumed[:1]))
            ref_values, _, _ = eval_dag(prog, provided)
            for style in ("suffix", "rotate"):
                names = exts + outs
                if style == "suffix":
                    rn = {n: n + "_r" for n in names}
                else:
                    if len(names) < 2:
                        continue
                    rn = {n: names[(i + 1) % len(names)] for i, n in enumerate(names)}
                p2 = {"nodes": []}
                for s in prog["nodes"]:
                    s2 = dict(s)
                    ri = {p: rn[p] for p in s["params"] if rn[p] != p}
                    ro = {o: rn[o] for o in s["outs"] if rn[o] != o}
                    if ri:
                        s2["rename_in"] = ri
                    if ro:
                        s2["rename_out"] = ro
                    p2["nodes"].append(s2)
                for runner in ("sync", "async"):
                    x = execute(T.set_async(p2, runner == "async"), {rn[k]: v for k, v in provided.items()}, runner=runner, h=H())
                    acc.evaluations += 1
                    acc.key(("alpha", N, si, style, runner))
                    exp = {rn[k]: v for k, v in ref_values.items()}
                    if x.exc is not None or x.result.status.value != "completed" or dict(x.result.values) != exp:
                        got = None if x.result is None else jsonable(x.result.values)
                        acc.violation({"symptom": "alpha-renamed-graph-differs", "style": style}, {"kind": "alpha", "program": p2, "provided": {rn[k]: v for k, v in provided.items()}, "runner": runner, "expected": jsonable(exp)}, f"alpha-renamed graph ({style}) gives {got} / {x.exc!r}, expected {jsonable(exp)}")


def run_shard(shard):
    tier, seed, pi, s, n = shard
    acc = Acc()
    if pi == "alpha":
        alpha(acc, tier)
        return acc
    kind, K = _plan(tier)[pi]
    ins = _in_names(kind)
    outs = SUBJECTS[kind][1]
    for i, hist in enumerate(histories(kind, K, ins, outs)):
        if i % n != s:
            continue
        acc.evaluations += 1
        reused = any(attr != "name" and (set(m.values()) & (set(ins) | set(outs))) for attr, m in hist) or len(hist) > 1
        if reused:
            acc.key((kind, repr(hist)))
        runs = [False]
        if kind in ("fn", "fn2", "ifelse", "route", "interrupt") and hist[0][0] == "inputs":
            runs.append(True)
        for via_ctor in runs:
            vs = run_history(kind, hist, acc, via_ctor)
            if via_ctor:
                acc.evaluations += 1
                acc.key((kind, "ctor", repr(hist)))
            acc.outcomes[(kind, K, "ok" if not vs else vs[0][0])] += 1
            for sym, msg in vs:
                acc.violation({"symptom": sym, "kind": kind, **({"via": "constructor"} if via_ctor else {})}, {"kind": kind, "history": [[a, m] for a, m in hist], "via_ctor": via_ctor}, f"{kind} node, history {hist}{' (first batch through the constructor)' if via_ctor else ''}: {msg}", size=len(repr(hist)))
        if i == s:
            acc.sample({"kind": kind, "history": [[a, m] for a, m in hist]}, 1)
    return acc


def coverage_extra(acc, tier, seed):
    return {"bounds": {"plan": [list(p) for p in _plan(tier)], "fresh_names": FRESH}}


def replay(rep):
    if rep["kind"] == "alpha":
        x = execute(T.set_async(rep["program"], rep["runner"] == "async"), rep["provided"], runner=rep["runner"], h=H())
        if x.exc is not None or jsonable(x.result.values) != rep["expected"]:
            return ["alpha-renamed graph differs"]
        return []
    hist = [(a, m) for a, m in rep["history"]]
    return [m for _, m in run_history(rep["kind"], hist, Acc(), rep.get("via_ctor", False))]
