"""C07 - immutability: derivation operations never change the object they are called on (DESIGN 4, C07)."""
from __future__ import annotations

import itertools

from .. import templates as T
from ..dsl import H, build, canon, jsonable, run_async, run_sync
from ..evidence import Acc, hk

PID = "C07"
LEVEL = "model_checking"
TECHNIQUE = "breadth-first exploration of derivation-operation histories on real Graph / node objects; every object ever created is re-snapshotted after every operation, and a second 'lazy' replay of each history (no observation until the end) is compared with the eager one"
LEVEL_TEXT = (
    "for four seed graphs (DAG with default, gated, cyclic, nested) and their nodes, EVERY history of <=D operations from the menu (bind / unbind "
    "/ select / with_entrypoint / add_nodes / as_node / with_name / with_inputs / with_outputs / map_over / run, tiny argument menus) is applied. "
    "After every operation the observable snapshot (input spec incl. identity of bound values, outputs, selection, entry points, structure hash, "
    "node attributes, map configuration, result of running on fixed inputs) of every previously created object must be unchanged and the result "
    "must be a new object. Each history is also replayed without any observation until the end: all final snapshots must equal the eager ones, so "
    "that aliasing hidden by a cached property that the observer itself filled is still seen."
)
LEVEL_NOTE = "no deduplication of histories (merging on equal snapshots would hide aliasing differences); add_nodes() with no argument returns the receiver by design and is not in the menu"
RULE = "histories enumerated exhaustively to depth 3 (quick: depth-3 histories sliced 1/6 by seed, depth<=2 complete; thorough: depth<=3 complete plus a 1/12 slice, rotating with the seed, of the depth-4 histories - all of them is about 40 core-hours); states = distinct tuples of snapshots; transitions = operations applied; distinct_nontrivial = histories with >=2 operations"
ASSUMPTIONS = ["snapshots are deep copies into plain data (lists copied), bound values compared by identity", "operations whose arguments the library rejects (ValueError / GraphConfigError) end that branch and are counted, not judged"]

VALS = {}
WORLD = []  # stack: object list of the world an operation is being applied in (for operations over two objects)


def _val(k, i):
    return VALS.setdefault((k, i), [f"v-{k}-{i}"])


def seeds():
    yield "dag", T.prog([T.fn("na", ["e0", "e1"], ["a0"], defaults={"e1": ["dflt", "e1"]}, types={"e0": int, "e1": str, "return": float}), T.fn("nb", ["a0"], ["b0", "b1"], types={"a0": float}), T.fn("nc", ["b0", "e0"], ["c0"], types={"b0": bytes, "e0": int, "return": list})], name="sd"), {"e0": ["prov", "e0"]}
    g = T.diamond_ifelse(True)
    g["nodes"][1]["behav"] = {"seq": [True]}
    g["name"] = "sg"
    yield "gated", g, {"e0": ["prov", "e0"]}
    yield "cyclic", dict(T.counter_loop(2, True, "route", True), name="sc"), {"count": 0}
    # the inner graph carries a BINDING, and the outer graph has a branch that does not involve the nested node (so that a
    # selection can leave the nested node out): computing the outer spec must not write the inner binding into the outer graph
    inner = T.prog([T.fn("ib", ["x", "k"], ["y"])], name="inr", bind={"k": ["bound", "k"]})
    yield "nested", T.prog([T.gnode("inr", inner), T.fn("ou", ["w"], ["u0"]), T.fn("oc", ["y"], ["z0"])], name="sn"), {"x": ["prov", "x"], "w": ["prov", "w"]}


def snap(obj, h, run_inputs):
    """Observable snapshot as plain data."""
    from hypergraph import Graph

    if isinstance(obj, Graph):
        ins = obj.inputs
        s = {
            "type": "graph",
            "required": tuple(ins.required),
            "optional": tuple(ins.optional),
            "entrypoints": tuple(sorted((k, tuple(v)) for k, v in ins.entrypoints.items())),
            "bound": tuple(sorted((k, id(v), repr(v)) for k, v in ins.bound.items())),
            "outputs": tuple(obj.outputs),
            "selected": obj.selected,
            "entry": obj.entrypoints_config,
            "hash": obj.definition_hash,
            "nodes": tuple(obj.nodes),
            "name": obj.name,
        }
        s["run"] = _run_view(obj, h, run_inputs)
        return s
    s = {
        "type": type(obj).__name__,
        "name": obj.name,
        "inputs": tuple(obj.inputs),
        "outputs": tuple(obj.outputs),
        "hash": obj.definition_hash,
        "history": len(obj._rename_history),
    }
    s["types"] = tuple((p, repr(obj.get_input_type(p))) for p in obj.inputs)  # the type follows the (renamed) input
    if hasattr(obj, "defaults"):
        s["defaults"] = tuple(sorted((k, repr(v)) for k, v in obj.defaults.items()))
    if hasattr(obj, "map_config"):
        mc = obj.map_config
        s["map"] = None if mc is None else (tuple(mc[0]), mc[1], mc[2])
        s["clone"] = tuple(obj._clone) if isinstance(obj._clone, list) else obj._clone
        s["has_default"] = tuple((p, obj.has_default_for(p)) for p in obj.inputs)
    else:
        s["has_default"] = tuple((p, obj.has_default_for(p)) for p in obj.inputs)
    return s


def _run_view(g, h, run_inputs):
    """Result of running the graph on fixed inputs (all listed inputs supplied unless bound)."""
    ins = {}
    spec = g.inputs
    pool = dict(run_inputs)
    for k in list(spec.required) + [p for ps in list(spec.entrypoints.values())[:1] for p in ps]:
        ins[k] = canon(pool.get(k, ["gen", k]))
    try:
        if g.has_async_nodes:
            r = run_async(g, ins, h, None, max_iterations=30, error_handling="continue")
        else:
            r = run_sync(g, ins, h, max_iterations=30, error_handling="continue")
    except Exception as e:  # noqa: BLE001
        return ("raised", type(e).__name__, str(e)[:80])
    return (r.status.value, tuple(sorted((k, repr(v)) for k, v in r.values.items())), None if r.error is None else type(r.error).__name__)


def menu(obj, extra_node, world=None):
    from hypergraph import Graph
    from hypergraph.nodes.gate import GateNode
    from hypergraph.nodes.graph_node import GraphNode

    ops = []
    if isinstance(obj, Graph):
        names = [n for n in list(dict.fromkeys(list(obj.inputs.all) + list(obj.outputs))) if n not in obj._get_emit_only_outputs()][:3]
        for k in names:
            for i in (0, 1):
                ops.append(("bind", k, i))
        for k in list(obj._bound)[:2]:
            ops.append(("unbind", k))
        outs = list(obj.outputs)[:2]
        for o in outs:
            ops.append(("select", (o,)))
        if len(outs) == 2:
            ops.append(("select", tuple(outs)))
        allo = tuple(o for o in obj.outputs if o not in obj._get_emit_only_outputs())
        if ("select", allo) not in ops and 0 < len(allo) <= 5:
            ops.append(("select", allo))  # widening back to EVERY output (after a narrower selection was used)
        for n in [n for n, v in obj.nodes.items() if not isinstance(v, GateNode)][:2]:
            ops.append(("with_entrypoint", n))
        if extra_node is not None and extra_node.name not in obj.nodes:
            ops.append(("add_nodes",))
        if obj.name:
            ops.append(("as_node",))
        ops.append(("run",))
        if world is not None:
            me = next(i for i, o in enumerate(world) if o is obj)
            for j in range(me - 1, -1, -1):
                other = world[j]
                # two relatives that BOTH carry bindings, side by side in a new outer graph
                if isinstance(other, Graph) and other.name and obj.name and set(other.outputs) == set(obj.outputs) and other._bound and obj._bound:
                    ops.append(("compose_with", j))
                    break
    else:
        ops.append(("with_name", obj.name + "_r"))
        if obj.inputs:
            ops.append(("with_inputs", ((obj.inputs[0], obj.inputs[0] + "_r"),)))
        if len(obj.inputs) >= 2:
            ops.append(("with_inputs", ((obj.inputs[0], obj.inputs[1]), (obj.inputs[1], obj.inputs[0]))))
        if obj.outputs:
            ops.append(("with_outputs", ((obj.outputs[0], obj.outputs[0] + "_r"),)))
        if isinstance(obj, GraphNode) and obj.inputs:
            ops.append(("map_over", obj.inputs[0]))
            if len(obj.inputs) >= 2:
                ops.append(("map_over_clone", obj.inputs[0], obj.inputs[1]))
    return ops


def apply(obj, op, extra_node):
    k = op[0]
    if k == "bind":
        return obj.bind(**{op[1]: _val(op[1], op[2])})
    if k == "unbind":
        return obj.unbind(op[1])
    if k == "select":
        return obj.select(*op[1])
    if k == "with_entrypoint":
        return obj.with_entrypoint(op[1])
    if k == "add_nodes":
        return obj.add_nodes(extra_node)
    if k == "as_node":
        return obj.as_node()
    if k == "compose_with":
        from hypergraph import Graph

        other = WORLD[-1][op[1]]
        outs = list(obj.outputs)
        na = other.as_node(name="cmp_a").with_outputs({o: o + "_ca" for o in outs})
        nb = obj.as_node(name="cmp_b").with_outputs({o: o + "_cb" for o in outs})
        outer = Graph([na, nb], name="cmp_outer")
        outer.inputs  # noqa: B018 - computing the outer spec must not write into either inner graph
        return outer
    if k == "with_name":
        return obj.with_name(op[1])
    if k == "with_inputs":
        return obj.with_inputs(dict(op[1]))
    if k == "with_outputs":
        return obj.with_outputs(dict(op[1]))
    if k == "map_over":
        return obj.map_over(op[1])
    if k == "map_over_clone":
        return obj.map_over(op[1], clone=[op[2]])
    raise ValueError(op)


class World:
    def __init__(self, seed_name):
        name, prog, ins = next(s for s in seeds() if s[0] == seed_name)
        self.h = H()
        nodes_out = []
        self.g0 = build(prog, self.h, nodes_out)
        self.run_inputs = ins
        self.objs = [self.g0, nodes_out[0], nodes_out[-1]]
        from ..dsl import build_node

        first = prog["nodes"][0]
        if first["kind"] != "graph":
            # a node object that has NEVER been used (not in any graph, no lookup made): whether the receiver was used
            # before a derivation must not matter (eager world: snapshotted first; lazy world: derived from untouched)
            self.objs[1] = build_node(dict(first, id=first["id"] + "_fresh", name=first["id"], fname=first["id"]), self.h)

        out0 = self.g0.outputs[0]
        self.extra = build_node(T.fn("xtra", [out0], ["xo"]), self.h)


def play(seed_name, hist, eager):
    """Apply a history [(object index, op), ...].  eager: snapshot everything after every operation.
    Returns (violations, snapshots at creation / final, rejected?)"""
    w = World(seed_name)
    vs = []
    first = {}
    if eager:
        for i, o in enumerate(w.objs):
            first[i] = snap(o, w.h, w.run_inputs)
    for step, (oi, op) in enumerate(hist):
        recv = w.objs[oi]
        try:
            if op[0] == "run":
                _run_view(recv, w.h, w.run_inputs)
                res = None
            else:
                WORLD.append(w.objs)
                try:
                    res = apply(recv, op, w.extra)
                finally:
                    WORLD.pop()
        except Exception as e:  # noqa: BLE001
            from hypergraph.graph.validation import GraphConfigError

            if isinstance(e, (ValueError, GraphConfigError, TypeError)) or type(e).__name__ == "RenameError":
                return vs, first, True
            raise
        if res is not None:
            if res is recv:
                vs.append(("returns-receiver", f"step {step + 1} {op}: returned the receiver itself, not a new object"))
            w.objs.append(res)
        if eager:
            for i, o in enumerate(w.objs):
                s = snap(o, w.h, w.run_inputs)
                if i in first:
                    if s != first[i]:
                        diff = sorted(k for k in s if s[k] != first[i].get(k))
                        role = "receiver" if i == oi else "other object"
                        vs.append((f"{role}-changed:{','.join(diff)}", f"step {step + 1} {op} on object #{oi}: {role} #{i} changed in {diff}: {jsonable({k: first[i][k] for k in diff})} -> {jsonable({k: s[k] for k in diff})}"))
                        first[i] = s
                else:
                    first[i] = s
    final = {i: snap(o, w.h, w.run_inputs) for i, o in enumerate(w.objs)}
    return vs, (first if eager else final), False


def _canon_ids(snaps):
    """bound-value identities are process addresses: compare by first-occurrence index."""
    ids = {}
    out = {}
    for i in sorted(snaps):
        s = dict(snaps[i])
        if "bound" in s:
            s["bound"] = tuple((k, ids.setdefault(a, len(ids)), r) for k, a, r in s["bound"])
        out[i] = s
    return out


def first_ops(seed_name):
    w = World(seed_name)
    return [(oi, op) for oi, o in enumerate(w.objs) for op in menu(o, w.extra)]


def histories(seed_name, depth, prefix=()):
    """DFS enumeration of all histories up to ``depth`` extending ``prefix`` (menus depend on the objects created so far)."""
    def rec(hist):
        if hist:
            yield list(hist)
        if len(hist) == depth:
            return
        w = World(seed_name)
        ok = True
        for oi, op in hist:
            try:
                if op[0] == "run":
                    continue
                WORLD.append(w.objs)
                try:
                    r = apply(w.objs[oi], op, w.extra)
                finally:
                    WORLD.pop()
                w.objs.append(r)
            except Exception:  # noqa: BLE001
                ok = False
                break
        if not ok:
            return
        for oi, o in enumerate(w.objs):
            for op in menu(o, w.extra, w.objs):
                hist.append((oi, op))
                yield from rec(hist)
                hist.pop()

    yield from rec(list(prefix))


def shards(tier, seed):
    return [(tier, seed, name, j, 1) for name, _, _ in seeds() for j in range(len(first_ops(name)))]


def run_shard(shard):
    tier, seed, seed_name, s, k = shard
    acc = Acc()
    depth = 3 if tier == "quick" else 4
    first = first_ops(seed_name)[s]
    for i, hist in enumerate(histories(seed_name, depth, [first])):
        # quick tier: depth-3 histories are sliced (all depth<=2 histories always run)
        if tier == "quick" and len(hist) == 3 and (i + seed) % 6 != 0 and hist[-1][1][0] != "compose_with":
            continue  # (two-object operations need two earlier steps: always kept)
        if tier != "quick" and len(hist) == 4 and (i + seed) % 12 != 0:
            continue  # thorough tier: depth <= 3 complete, depth 4 sliced
        acc.evaluations += 1
        acc.traces += 1
        acc.transitions += len(hist)
        if len(hist) >= 2:
            acc.key((seed_name, repr(hist)))
        vs, eager, rej = play(seed_name, hist, True)
        if rej:
            acc.counters["history_rejected_by_library"] += 1
            continue
        vs2, lazy, rej2 = play(seed_name, hist, False)
        ce, cl = _canon_ids(eager), _canon_ids(lazy)
        acc.state((seed_name, repr(sorted((i_, repr(sorted(v.items(), key=repr))) for i_, v in ce.items()))))
        if not rej2 and ce != cl:
            for i_ in sorted(ce):
                if ce[i_] != cl.get(i_):
                    diff = sorted(k_ for k_ in ce[i_] if ce[i_][k_] != cl.get(i_, {}).get(k_))
                    vs.append((f"lazy-eager-differs:{','.join(diff)}", f"object #{i_} observed only at the end of the history differs from the same object observed right after its creation in {diff}: {jsonable({k_: ce[i_][k_] for k_ in diff})} vs {jsonable({k_: cl.get(i_, {}).get(k_) for k_ in diff})}"))
                    break
        acc.outcomes[(seed_name, len(hist), "ok" if not vs else vs[0][0].split(":")[0])] += 1
        for sym, msg in vs:
            acc.violation({"symptom": sym, "op": hist[-1][1][0] if "changed" in sym else "history"}, {"seed": seed_name, "history": [[oi, list(op)] for oi, op in hist]}, f"{seed_name} history {hist}: {msg}", size=len(repr(hist)))
        if i == 0 and s % 9 == 0:
            acc.sample({"seed": seed_name, "history": [[oi, jsonable(op)] for oi, op in hist]}, 1)
    return acc


def coverage_extra(acc, tier, seed):
    return {"depth": 3 if tier == "quick" else 4, "depth3_slice": "1/6 rotating with seed" if tier == "quick" else "all", "depth4_slice": None if tier == "quick" else "1/12 rotating with seed"}


def _op(o):
    return tuple(tuple(tuple(y) if isinstance(y, list) else y for y in x) if isinstance(x, list) else x for x in o)


def replay(rep):
    hist = [(oi, _op(op)) for oi, op in rep["history"]]
    vs, eager, rej = play(rep["seed"], hist, True)
    vs2, lazy, rej2 = play(rep["seed"], hist, False)
    msgs = [m for _, m in vs]
    if not rej and not rej2 and _canon_ids(eager) != _canon_ids(lazy):
        msgs.append("lazy and eager observations differ")
    return msgs
