"""C08 - input contract: the reported input spec is exact; violations fail before execution (DESIGN 4, C08)."""
from __future__ import annotations

import copy
import itertools

from .. import templates as T
from ..dsl import H, build, canon, execute, jsonable
from ..evidence import Acc
from ..monitors import Rec
from ..progen import dag_program, dag_shapes, shape_names

PID = "C08"
LEVEL = "exploration"
TECHNIQUE = "bounded-exhaustive enumeration of graph configurations (bind / select / with_entrypoint / run-time select over DAG, gated, cyclic, nested and signal programs) with a two-sided oracle on the real runners: the full reported input set is accepted and suffices, every single omission is rejected with MissingInputError before any node or processor runs"
LEVEL_TEXT = (
    "for every program and configuration inside the bounds the library's own reported spec is taken as the claim and tested on both sides: "
    "required / optional / entry-point parameters are pairwise disjoint; supplying all required inputs (plus the parameters of each listed entry "
    "point in turn) is accepted and the run is not stopped by an input problem (for gate-free DAGs every selected output is produced); omitting "
    "any single required input raises MissingInputError naming it with an empty call log and an empty event log; bind removes a name from "
    "required and lists it as bound, unbind restores the spec."
)
LEVEL_NOTE = "bindings are placed only on names the spec itself lists (required, optional, entry-point parameters); a run-time select is judged against the spec of the equivalently selected graph; also: falsy bound values, history independence of the reported spec (pre-used parents), run-time select overriding a graph-level select ('**' / another output), inner bindings shared with outer nodes"
RULE = "programs x bind subsets (<=2 names) x graph-level select x with_entrypoint x run-time select x (full set per entry point, each single omission); distinct_nontrivial = distinct configurations with >=1 bind/select/entry point"
ASSUMPTIONS = ["loop-carried inputs are integers, all other inputs opaque tokens", "an 'input-related failure' is MissingInputError, ValueError from input validation, or KeyError 'No value for input' during the run"]


def programs(tier, seed):
    """yield (family, program, value map for inputs, gate-free DAG?)"""
    for N in (1, 2, 3):
        for si, shape in enumerate(dag_shapes(N, 2, 2, 2)):
            if N == 3 and (si + seed) % (40 if tier == "quick" else 4) != 0:
                continue
            exts, consumed, outs = shape_names(shape)
            for dv in range(2 if exts else 1):
                src = {e: frozenset("D") if (dv == 1 and i == 0) else frozenset("P") for i, e in enumerate(exts)}
                for od in ([set()] + ([set(consumed[:1])] if consumed else [])):
                    prog, _ = dag_program(shape, src, od)
                    yield ("dag", prog, {}, True)
    e = {}
    for do in (True, False):
        r = T.route3(do)
        r["nodes"][1]["behav"] = {"seq": ["p"]}
        yield ("gated", r, e, False)
        d = T.diamond_ifelse(do)
        d["nodes"][1]["behav"] = {"seq": [False]}
        yield ("gated", d, e, False)
    sh = T.two_gates_shared_target(True, False)
    sh["nodes"][1]["behav"] = {"seq": [True]}
    sh["nodes"][2]["behav"] = {"seq": ["v"]}
    yield ("gated", sh, e, False)
    ints = {"count": 0, "x0": 0, "x1": 0, "x2": 0, "total": 100, "s": 0, "a": 0, "u": 1, "lim": 3}
    for lim in (0, 2):
        for ex in (False, True):
            yield ("loop", T.counter_loop(lim, True, "route", ex), ints, False)
    from . import c04

    yield ("loop-2body", c04.loop_program(2, "route", "END", "state", False, limit=4), ints, False)
    yield ("loop-3body-exit", c04.loop_program(3, "ifelse", "node", "state", False, limit=3), ints, False)
    yield ("loop-acc-1body", c04.loop_program(1, "route", "END", "state", True, limit=2), ints, False)
    yield ("loop-acc-2body", c04.loop_program(2, "route", "END", "state", True, limit=4), ints, False)
    yield ("loop-nested-1body", c04.loop_program(1, "route", "END", "state", False, limit=2, nested=True), ints, False)
    yield ("loop-nested-2body", c04.loop_program(2, "route", "END", "state", False, limit=4, nested=True), ints, False)
    cyc = T.prog(
        [
            T.fn("b1", ["s", "u"], ["a"], behav={"py": "s + u"}),
            T.fn("b2", ["a"], ["s"], behav={"py": "a"}),
            T.route("chk", ["s", "lim"], ["b1", "END"], behav={"py": "'b1' if s < lim else END"}),
        ]
    )
    yield ("loop-extra-inputs", cyc, ints, False)
    two = T.prog(
        [
            T.fn("la", ["xa"], ["xa"], behav={"py": "xa + 1"}),
            T.route("ga", ["xa"], ["la", "END"], behav={"py": "'la' if xa < 2 else END"}),
            T.fn("lb1", ["yb"], ["zb"], behav={"py": "yb + 1"}),
            T.fn("lb2", ["zb"], ["yb"], behav={"py": "zb + 1"}),
            T.route("gb", ["yb"], ["lb1", "END"], behav={"py": "'lb1' if yb < 4 else END"}),
        ]
    )
    yield ("loop-two-independent", two, dict(ints, xa=0, yb=0, zb=0), False)
    yield ("loop-two-independent-rev", T.prog(list(reversed(two["nodes"]))), dict(ints, xa=0, yb=0, zb=0), False)
    # two data-independent cycles steered by ONE gate (its control edges join them into one component of the full graph; the cycles
    # of the input spec are those of the DATA graph): each cycle still needs its own seed
    shared_gate = T.prog(
        [
            T.fn("la", ["xa"], ["xa"], behav={"py": "xa + 1"}),
            T.fn("lb1", ["yb"], ["zb"], behav={"py": "yb + 1"}),
            T.fn("lb2", ["zb"], ["yb"], behav={"py": "zb + 1"}),
            T.route("gg", ["xa", "yb"], ["la", "lb1", "END"], behav={"py": "'la' if xa < 2 else ('lb1' if yb < 4 else END)"}),
        ]
    )
    yield ("loop-two-cycles-one-gate", shared_gate, dict(ints, xa=0, yb=0, zb=0), False)
    yield ("loop-two-cycles-one-gate-rev", T.prog(list(reversed(shared_gate["nodes"]))), dict(ints, xa=0, yb=0, zb=0), False)
    yield ("nested", T.nested_fanout(), e, True)
    yield ("nested2", T.nested_depth(2), e, True)
    inner = T.prog([T.fn("ib", ["x", "k"], ["y"], defaults={"k": ["dflt", "k"]}), T.fn("ic", ["y", "m"], ["z"])], name="inr", bind={"m": ["bound", "m"]})
    yield ("nested-bound-default", T.prog([T.gnode("inr", inner), T.fn("oc", ["z", "q"], ["w0"])]), e, True)
    # ... the same with falsy / None values bound inside (a binding is a binding whatever its value), one and two levels down
    for fi, fv in enumerate([0, False, "", [], None]):
        inner_f = T.prog([T.fn("ib", ["x", "k"], ["y"], defaults={"k": ["dflt", "k"]}), T.fn("ic", ["y", "m"], ["z"])], name="inr", bind={"m": fv})
        yield (f"nested-bound-falsy-{fi}", T.prog([T.gnode("inr", inner_f), T.fn("oc", ["z", "q"], ["w0"])]), e, True)
        mid_f = T.prog([T.gnode("inr", inner_f, rename_in={"m": "mm"})], name="mid")
        yield (f"nested2-bound-falsy-{fi}", T.prog([T.gnode("mid", mid_f), T.fn("oc", ["z", "q"], ["w0"])]), e, True)
    # an inner binding whose name is also consumed by a plain node of the parent graph (the inner value surfaces outside)
    shared = T.prog([T.fn("srch", ["query", "model"], ["hits"])], name="retr", bind={"model": ["bound", "model"]})
    yield ("nested-shared-bound-name", T.prog([T.gnode("retr", shared), T.fn("summ", ["hits"], ["summary"]), T.fn("bann", ["title", "model"], ["banner"])]), e, True)
    # a wrapper whose renames re-use a name freed by an earlier rename: exposed 'a' is the UNBOUND inner 'b', while the inner
    # graph's own (bound) 'a' is exposed as 'cfg' - chained calls and the single-call form
    for form, kw in (("chain", {"rename_in_chain": [{"a": "cfg"}, {"b": "a"}]}), ("batch", {"rename_in": {"a": "cfg", "b": "a"}}), ("chain-default", {"rename_in_chain": [{"d": "tmp"}, {"b": "d"}]})):
        inner2 = T.prog([T.fn("ia", ["a", "b", "d"], ["y"], defaults={"d": ["dflt", "d"]})], name="inr2", bind={"a": ["bound", "a"]})
        yield ("nested-rename-reuses-freed-name-" + form, T.prog([T.gnode("inr2", inner2, **kw), T.fn("sib", ["t"], ["s0"])]), e, True)
    sig = T.prog([T.fn("save", ["record"], ["saved"], emit=["flushed"]), T.fn("summ", ["title"], ["report"], wait_for=["flushed"]), T.fn("oth", ["title", "extra"], ["o0"])])
    yield ("signals", sig, e, True)
    sig2 = T.prog([T.fn("consume", ["mid", "cfg"], ["c0"]), T.fn("produce", ["start", "cfg"], ["mid"])])
    yield ("shared-input-order", sig2, e, True)


FALSY = [0, False, "", (), None]


def shards(tier, seed):
    k = 64
    return [(tier, seed, s, k) for s in range(k)]


def _val(name, ints):
    return ints.get(name, ["prov", name])


def _spec_view(spec):
    return (tuple(sorted(spec.required)), tuple(sorted(spec.optional)), tuple(sorted((k, tuple(v)) for k, v in spec.entrypoints.items())), tuple(sorted(spec.bound)))


def _entry_groups(g, spec):
    """listed entry points grouped by cyclic component (data edges)."""
    import networkx as nx

    if not spec.entrypoints:
        return []
    dg = nx.DiGraph()
    dg.add_nodes_from(g.nx_graph.nodes())
    dg.add_edges_from((u, v) for u, v, d in g.nx_graph.edges(data=True) if d.get("edge_type") == "data")
    groups = {}
    for i, scc in enumerate(nx.strongly_connected_components(dg)):
        for n in scc:
            if n in spec.entrypoints:
                groups.setdefault(i, []).append(n)
    return [sorted(v) for v in groups.values()]


def _run(g, h, inputs, rec, is_async, **kw):
    return execute(None, inputs, runner="async" if is_async else "sync", h=h, graph=g, event_processors=[rec], on_internal_override="ignore", max_iterations=60, **kw)


def _input_problem(x):
    from hypergraph.exceptions import MissingInputError

    e = x.exc
    if e is None and x.result is not None and not isinstance(x.result, list):
        e = x.result.error
    if e is None:
        return None
    if isinstance(e, MissingInputError):
        return f"MissingInputError: {str(e)[:160]}"
    if isinstance(e, ValueError) and any(t in str(e) for t in ("entry point", "Entry point", "Ambiguous", "internal override", "compute and inject", "partial inject")):
        return f"ValueError: {str(e)[:160]}"
    if isinstance(e, KeyError) and "No value for input" in str(e):
        return f"KeyError: {str(e)[:160]}"
    if isinstance(e, RuntimeError) and "Missing" in str(e):
        return f"{type(e).__name__}: {str(e)[:160]}"
    return None


def check_config(acc, family, prog, ints, is_dag, cfg, runner):
    """cfg = dict(bind=tuple names, select=tuple|None, entry=tuple|None, rsel=tuple|None)"""
    from hypergraph.exceptions import MissingInputError

    is_async = runner == "async"
    p = T.set_async(prog, is_async)
    h = H()
    w = {"family": family, "program": prog, "cfg": {k: (list(v) if isinstance(v, tuple) else v) for k, v in cfg.items()}, "runner": runner}

    def viol(sym, msg, **extra):
        acc.violation({"symptom": sym, "family": family.split("-")[0], **extra}, w, f"{family} {cfg}: {msg}", size=len(repr(prog)) + len(repr(cfg)))

    def prerun(gg):
        """Use the parent object first (its spec is read; with a run-time select it is also run): nothing computed for it may
        survive into a derived graph."""
        try:
            gg.inputs
        except Exception:  # noqa: BLE001
            pass
        if not cfg["rsel"] or cfg["rsel"] == "**":
            return
        try:
            sp = gg.select(*cfg["rsel"]).inputs
            ins = {r: _val(r, ints) for r in list(sp.required) + [q for v in list(sp.entrypoints.values())[:1] for q in v]}
            execute(None, ins, runner="async" if is_async else "sync", h=H(), graph=gg, select=list(cfg["rsel"]), on_internal_override="ignore", max_iterations=60, error_handling="continue")
        except Exception:  # noqa: BLE001 - the pre-run is only there to warm caches
            pass

    try:
        g0 = build(p, h)
        g = g0
        if cfg["bind"]:
            prerun(g)
            g = g.bind(**{k: canon(_val(k, ints)) for k in cfg["bind"]})
            # bind then unbind must also give back a graph that validates like the original
        if cfg["entry"]:
            prerun(g)
            g = g.with_entrypoint(*cfg["entry"])
        g_unselected = g
        if cfg["select"]:
            prerun(g)
            g = g.select(*cfg["select"])
        if cfg["rsel"] == "**":
            gspec = g_unselected  # run-time "**" lifts the graph's default selection
        else:
            gspec = g.select(*cfg["rsel"]) if cfg["rsel"] else g
        spec = gspec.inputs
    except Exception as e:  # noqa: BLE001
        acc.counters["configuration_rejected"] += 1
        return
    acc.evaluations += 1
    # history independence: the same configuration derived from never-used objects reports the same spec
    try:
        gf = build(p, H())
        if cfg["bind"]:
            gf = gf.bind(**{k: canon(_val(k, ints)) for k in cfg["bind"]})
        if cfg["entry"]:
            gf = gf.with_entrypoint(*cfg["entry"])
        if cfg["select"]:
            gf = gf.select(*cfg["select"])
        if cfg["rsel"] == "**":
            gf = build(p, H())
            if cfg["bind"]:
                gf = gf.bind(**{k: canon(_val(k, ints)) for k in cfg["bind"]})
            if cfg["entry"]:
                gf = gf.with_entrypoint(*cfg["entry"])
        elif cfg["rsel"]:
            gf = gf.select(*cfg["rsel"])
        fresh_view = _spec_view(gf.inputs)
    except Exception:  # noqa: BLE001
        fresh_view = None
    if fresh_view is not None and fresh_view != _spec_view(spec):
        viol("spec-depends-on-history", f"derived after the parent objects were used, the spec is {_spec_view(spec)}; derived from never-used objects it is {fresh_view}")
    req, opt = set(spec.required), set(spec.optional)
    eps = {k: set(v) for k, v in spec.entrypoints.items()}
    epp = set().union(*eps.values()) if eps else set()
    if (req & opt) or (req & epp) or (opt & epp):
        viol("categories-overlap", f"required {sorted(req)}, optional {sorted(opt)}, entry-point parameters {sorted(epp)} are not pairwise disjoint")
    for b in cfg["bind"]:
        if b in req:
            viol("bound-name-still-required", f"{b} is bound but still listed as required")
        if b not in spec.bound:
            viol("bound-name-not-listed", f"{b} is bound but not listed in bound")
    # bind / unbind round trip on every required name
    for r in sorted(req):
        try:
            gb = gspec.bind(**{r: canon(_val(r, ints))})
            sb = gb.inputs
            if r in sb.required or r not in sb.bound:
                viol("bind-does-not-remove-required", f"bind({r}) leaves required={sorted(sb.required)} bound={sorted(sb.bound)}")
            if _spec_view(gb.unbind(r).inputs) != _spec_view(spec):
                viol("unbind-does-not-restore", f"bind({r}).unbind({r}) gives {_spec_view(gb.unbind(r).inputs)} instead of {_spec_view(spec)}")
        except Exception as e:  # noqa: BLE001
            viol("bind-of-required-rejected", f"bind({r}) raised {type(e).__name__}: {str(e)[:100]}")
        # ... whatever the bound VALUE is (falsy values and None included)
        for fv in FALSY:
            try:
                sb = gspec.bind(**{r: fv}).inputs
            except Exception as e:  # noqa: BLE001
                viol("bind-of-required-rejected", f"bind({r}={fv!r}) raised {type(e).__name__}: {str(e)[:100]}")
                continue
            if r in sb.required or r not in sb.bound:
                viol("bind-does-not-remove-required", f"bind({r}={fv!r}) leaves required={sorted(sb.required)} bound={sorted(sb.bound)}", falsy_value=True)
    groups = _entry_groups(g, spec)
    for b in sorted(set(spec.required) | set(spec.optional) | epp):
        try:
            sb = gspec.bind(**{b: canon(_val(b, ints))}).inputs
        except Exception:  # noqa: BLE001
            continue
        removed = set(spec.entrypoints) - set(sb.entrypoints)
        allowed = set()
        for gr in groups:
            if any(b in eps[e] for e in gr):
                allowed |= set(gr)
        if not removed <= allowed:
            viol("bind-drops-unrelated-entry-points", f"bind({b}) removed the entry points {sorted(removed - allowed)} of a cycle that does not use {b}")
    # entry choices: one listed entry point per cyclic component, each in turn
    multi = [gr for gr in groups if len(gr) > 1]
    if len(multi) > 1:
        acc.observations["two cyclic components with several entry points each (run(entrypoint=) names only one)"] += 1
        return
    choices = list(itertools.product(*groups)) if groups else [()]
    kw = {}
    if cfg["rsel"]:
        kw["select"] = "**" if cfg["rsel"] == "**" else list(cfg["rsel"])
    for choice in choices:
        inputs = {r: _val(r, ints) for r in req}
        for epn in choice:
            for q in eps[epn]:
                inputs[q] = _val(q, ints)
        ckw = dict(kw)
        if multi:
            ckw["entrypoint"] = next(c for c in choice if c in multi[0])
        rec = Rec()
        x = _run(g, h, inputs, rec, is_async, **ckw)
        acc.evaluations += 1
        prob = _input_problem(x)
        ent = {"entry_choice": list(choice)}
        if prob is not None:
            reason = next((r for t, r in (("Ambiguous cycle entry", "ambiguous-cycle-entry"), ("compute and inject", "compute-and-inject"), ("No entry point", "no-entry-point"), ("partial inject", "partial-inject"), ("Missing required", "missing-required"), ("No value for input", "no-value-at-run-time")) if t in prob), "other")
            viol("full-input-set-rejected", f"all required inputs{' + parameters of entry point ' + str(list(choice)) if choice else ''} supplied ({sorted(inputs)}) but: {prob}", reason=reason, raised_inside_nested_run="nested" in family)
        elif x.exc is not None or (x.result is not None and x.result.status.value == "failed"):
            err = x.exc or x.result.error
            viol("run-failed-with-full-inputs", f"inputs {sorted(inputs)}: {type(err).__name__}: {str(err)[:120]}", cyclic=bool(groups))
        elif is_dag and not cfg["entry"] and x.result is not None and x.result.status.value == "completed":
            sel = cfg["rsel"] or cfg["select"]
            if sel == "**":
                sel = [o for o in g_unselected.outputs if o not in g_unselected._get_emit_only_outputs()]
            if sel:
                miss = [o for o in sel if o not in x.result.values]
                if miss:
                    viol("selected-output-not-produced", f"all required inputs supplied but selected outputs {miss} were not produced")
        # necessity of a seed per cycle: with several cyclic components, leaving out the whole seed of one of them is refused
        if len(groups) >= 2:
            for epn in choice:
                drop = {q for q in eps[epn] if q not in req and not any(q in eps[o] for o in choice if o != epn)}
                if not drop:
                    continue
                ins3 = {k: v for k, v in inputs.items() if k not in drop}
                grp = next(gr for gr in groups if epn in gr)
                if any(eps[o] <= set(ins3) for o in grp):
                    continue  # (what is left still seeds this cycle through another of its entry points)
                ckw3 = {k: v for k, v in ckw.items() if not (k == "entrypoint" and v == epn)}
                rec3 = Rec()
                n0 = len(h.calls)
                x3 = _run(g, h, ins3, rec3, is_async, **ckw3)
                acc.evaluations += 1
                if _input_problem(x3) is None:
                    viol("cycle-seed-omitted-accepted", f"the graph has {len(groups)} cycles; the seed {sorted(drop)} of the cycle entered at {epn} was left out (supplied {sorted(ins3)}) but the call was accepted: status {x3.status}, {len(h.calls) - n0} node calls")
                elif len(h.calls) != n0 or rec3.log:
                    viol("rejected-call-had-effects", f"cycle seed {sorted(drop)} omitted: {len(h.calls) - n0} node calls and {len(rec3.log)} events before the rejection")
        # necessity: each single omission
        for r in sorted(req):
            ins2 = {k: v for k, v in inputs.items() if k != r}
            rec2 = Rec()
            n0 = len(h.calls)
            x2 = _run(g, h, ins2, rec2, is_async, **ckw)
            acc.evaluations += 1
            if not isinstance(x2.exc, MissingInputError):
                got = f"{type(x2.exc).__name__}: {str(x2.exc)[:100]}" if x2.exc is not None else f"status {x2.status}"
                viol("omission-accepted", f"required input {r} omitted (supplied {sorted(ins2)}) but the call gave {got}", cyclic=bool(groups), bound=bool(cfg["bind"]), selected=bool(cfg["select"] or cfg["rsel"]))
            else:
                if r not in x2.exc.missing:
                    viol("omission-error-does-not-name-input", f"omitted {r}; MissingInputError names {x2.exc.missing}")
            if isinstance(x2.exc, MissingInputError) and (len(h.calls) != n0 or rec2.log):
                viol("rejected-call-had-effects", f"omitted {r}: {len(h.calls) - n0} node calls and {len(rec2.log)} events before the rejection")
    acc.outcomes[(family.split("-")[0], bool(groups), len(req))] += 1


def configs_for(prog, tier):
    h = H()
    try:
        g = build(T.set_async(prog, False), h)
    except Exception:  # noqa: BLE001
        return
    names = list(g.inputs.all)
    emit_only = g._get_emit_only_outputs()
    outs = [o for o in g.outputs if o not in emit_only]
    from hypergraph.nodes.gate import GateNode

    nodes = [n for n, v in g.nodes.items() if not isinstance(v, GateNode)]
    binds = [()] + [(n,) for n in names[:4]] + [tuple(c) for c in itertools.combinations(names[:3], 2)]
    sels = [None] + [(o,) for o in outs[:3]]
    entries = [None] + [(n,) for n in nodes[:3]]
    for b in binds:
        for s in sels:
            for en in entries:
                # (with a graph-level selection: the run-time override to another output and to "**" = everything)
                rsels = [None, "**"] + [(o,) for o in outs[:2] if (o,) != s][:1] if s else [None] + [(o,) for o in outs[:2]]
                for rs in rsels:
                    if tier == "quick" and sum(x is not None and x != () for x in (b, s, en, rs)) > 2:
                        continue
                    yield dict(bind=b, select=s, entry=en, rsel=rs)


def run_shard(shard):
    tier, seed, s, k = shard
    acc = Acc()
    i = 0
    for family, prog, ints, is_dag in programs(tier, seed):
        for cfg in configs_for(prog, tier):
            i += 1
            if i % k != s:
                continue
            for runner in ("sync", "async"):
                if any(v for v in cfg.values()):
                    acc.key((family, repr(prog), repr(cfg), runner))
                check_config(acc, family, prog, ints, is_dag, cfg, runner)
            if i % 3001 == 0:
                acc.sample({"family": family, "program": prog, "cfg": jsonable(cfg)}, 2)
    return acc


def coverage_extra(acc, tier, seed):
    return {"bounds": {"dag": "N<=2 complete, N=3 sliced by seed (P<=2,O<=2,E<=2)", "bind_subsets": "<=2 names of the first 3-4 listed inputs", "config_dimensions_combined": 2 if tier == "quick" else 4}}


def replay(rep):
    acc = Acc()
    cfg = {k: (tuple(v) if isinstance(v, list) else v) for k, v in rep["cfg"].items()}
    ints = {"count": 0, "x0": 0, "x1": 0, "x2": 0, "total": 100, "s": 0, "a": 0, "u": 1, "lim": 3, "xa": 0, "yb": 0, "zb": 0}
    fam = rep["family"]
    check_config(acc, fam, rep["program"], ints if fam.startswith("loop") else {}, fam in ("dag", "nested", "nested2", "nested-bound-default", "nested-shared-bound-name", "signals", "shared-input-order") or fam.startswith(("nested-bound-falsy", "nested2-bound-falsy")), cfg, rep["runner"])
    return [v["message"] for v in acc.violations.values()]
