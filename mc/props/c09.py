"""C09 - caching is transparent, even with eviction, corruption or a torn write (DESIGN 4, C09)."""
from __future__ import annotations

import copy
import itertools
import os
import shutil
import tempfile

from .. import templates as T
from ..dsl import H, build, canon, execute, jsonable
from ..evidence import Acc

PID = "C09"
LEVEL = "fault_enumeration"
TECHNIQUE = "bounded-exhaustive run histories over every cacheable subset and backend against an LRU reference model, plus COMPLETE fault menus on the disk backend: every stored entry x every corruption class, and every crash point of the backend write log with reopen-and-rerun; pickle.loads spied for unauthenticated bytes"
LEVEL_TEXT = (
    "programs (chain, diamond with cached gate, loop, two nodes sharing one function with different outputs, swapped input renames across graphs, "
    "gates sharing a routing function) x every subset of nodes cacheable x run histories over two input values and both runners x backends "
    "(unbounded, LRU 1, LRU 2, disk): every run equals the uncached run and the set of invoked functions equals the misses of an LRU reference "
    "model keyed on (function, arguments by parameter, output names). Disk: after a history EVERY stored entry is damaged in EVERY class "
    "(bit flip, truncation, non-bytes payload, missing / wrong-type / altered signature, missing payload, transplanted foreign entry) and the "
    "history's write log is cut at EVERY point; after each, a rerun on a reopened cache must not raise, must equal the uncached run, must treat "
    "the entry as a miss and must never unpickle bytes that were not written and signed by the cache itself."
)
LEVEL_NOTE = 'crash semantics are those of the backend operation log (each diskcache set is atomic); SQLite page tearing is outside; also: relatives derived after a cached run, equal-but-different arguments (1 / True / 1.0 ...), cached interrupt call histories, routes differing only in fallback, partials, signals in the identity'
RULE = "evaluations = runs executed under a cache; distinct_nontrivial = distinct (program, cacheable subset, backend, history / fault point) whose cache was actually hit or whose fault was actually reached"
ASSUMPTIONS = ["node functions are plain (sync) functions under both runners, so that one definition is shared across runners", "function nodes are deterministic provenance terms, so any cross-served entry changes a value or a name", "model key = (function identity, arguments by ORIGINAL parameter name, output names, gate targets)"]


class Crash(BaseException):
    pass


class BackendProxy:
    """Wraps the diskcache.Cache inside a DiskCache: logs operations, injects a crash before write #k."""

    def __init__(self, inner, crash_before=None):
        self.inner = inner
        self.writes = []  # (key, value)
        self.crash_before = crash_before
        self.n = 0

    def get(self, key, default=None, **kw):
        return self.inner.get(key, default=default, **kw)

    def set(self, key, value, **kw):
        if self.crash_before is not None and self.n == self.crash_before:
            self.n += 1
            raise Crash(f"crash before write {self.crash_before}")
        self.n += 1
        self.writes.append((key, value))
        return self.inner.set(key, value, **kw)

    def delete(self, key, **kw):
        return self.inner.delete(key, **kw)

    def __getattr__(self, name):
        return getattr(self.inner, name)


class PickleSpy:
    """Stands in for the pickle module inside hypergraph.cache; records every argument of loads()."""

    def __init__(self):
        import pickle

        self._p = pickle
        self.loaded = []

    def loads(self, data, *a, **kw):
        self.loaded.append(data)
        return self._p.loads(data, *a, **kw)

    def __getattr__(self, name):
        return getattr(self._p, name)


class Lru:
    def __init__(self, max_size):
        self.max = max_size
        self.keys = []

    def get(self, k):
        if k in self.keys:
            self.keys.remove(k)
            self.keys.append(k)
            return True
        return False

    def set(self, k):
        if k in self.keys:
            self.keys.remove(k)
        self.keys.append(k)
        if self.max is not None and len(self.keys) > self.max:
            self.keys.pop(0)


# ---------------------------------------------------------------- programs
def programs():
    """yield (name, program(s) per run selector, input variants)"""
    chain = T.prog([T.fn("na", ["e0"], ["a0"]), T.fn("nb", ["a0"], ["b0"]), T.fn("nc", ["a0", "b0"], ["c0", "c1"])])
    yield "chain", {"g": chain}, [{"e0": ["v", 0]}, {"e0": ["v", 1]}]
    sigp = T.prog([T.fn("prod", ["e0"], ["a0"], emit=["sig"]), T.fn("w1", ["e0"], ["w0"], wait_for=["sig"]), T.fn("w2", ["a0"], ["v0"], wait_for=["sig"])])
    yield "emit-producer", {"g": sigp}, [{"e0": ["v", 0]}, {"e0": ["v", 1]}]
    dia = T.diamond_ifelse(True)
    dia["nodes"][1]["behav"] = {"py": "a0[2][0][1][1] == 0"}
    yield "diamond", {"g": dia}, [{"e0": ["v", 0]}, {"e0": ["v", 1]}]
    r3 = T.route3(False)
    r3["nodes"][1]["behav"] = {"py": "'p' if a0[2][0][1][1] == 0 else END"}
    yield "route-END", {"g": r3}, [{"e0": ["v", 0]}, {"e0": ["v", 1]}]
    loop = T.counter_loop(2, True, "route", True)
    yield "loop", {"g": loop}, [{"count": 0}, {"count": 1}]
    endloop = T.prog(
        [
            T.fn("inc", ["count"], ["count"], behav={"py": "count + 1"}),
            T.route("drv", ["count"], ["inc", "END"], behav={"py": "'inc' if count < 4 else END"}),
            T.route("rep", ["count"], ["report", "END"], behav={"py": "'report' if count % 2 == 0 else END"}),
            T.fn("report", ["count"], ["seen"], behav={"py": "('seen', count)"}),
        ]
    )
    yield "loop-gate-END-then-target", {"g": endloop}, [{"count": 0}, {"count": 1}]
    empties = T.prog(
        [
            T.route("gn", ["e0"], ["tp", "END"], behav={"py": "None"}),
            T.fn("tp", ["e0"], ["t0"]),
            T.fn("log", ["e0"], []),
            T.fn("val", ["e0"], ["v0"]),
        ]
    )
    yield "empty-entries", {"g": empties}, [{"e0": ["v", 0]}, {"e0": ["v", 1]}]
    shared = T.prog([T.fn("n1", ["e0"], ["p"], func_key="F", fname="shared_fn"), T.fn("n2", ["e0"], ["q"], func_key="F", fname="shared_fn"), T.fn("use", ["p", "q"], ["u0"])])
    yield "shared-function-outputs", {"g": shared}, [{"e0": ["v", 0]}, {"e0": ["v", 1]}]
    g1 = T.prog([T.fn("m1", ["a", "b"], ["p"], func_key="G", fname="two_arg_fn")])
    g2 = T.prog([T.fn("m2", ["a", "b"], ["p"], func_key="G", fname="two_arg_fn", rename_in={"a": "b", "b": "a"})])
    yield "swapped-renames-across-graphs", {"g": g1, "h": g2}, [{"a": ["v", 0], "b": ["v", 1]}]
    # two route gates over one function and the same targets that differ ONLY in their fallback; the function answers None
    f1 = T.prog([T.route("ra", ["e0"], ["ta", "tb"], fallback="ta", func_key="RF", fname="shared_route_fn", behav={"py": "None"}), T.fn("ta", ["e0"], ["ra0"]), T.fn("tb", ["e0"], ["rb0"])])
    f2 = T.prog([T.route("rb", ["e0"], ["ta", "tb"], fallback="tb", func_key="RF", fname="shared_route_fn", behav={"py": "None"}), T.fn("ta2", ["e0"], ["ra0"], name="ta"), T.fn("tb2", ["e0"], ["rb0"], name="tb")])
    yield "routes-differing-in-fallback", {"g": f1, "h": f2}, [{"e0": ["v", 0]}]
    # one function behind two nodes that differ ONLY in the signal they emit (same data output, same arguments)
    e1 = T.prog([T.fn("n1", ["e0"], ["p"], func_key="E", fname="shared_emit_fn", emit=["s1"]), T.fn("w1", ["e0"], ["w0"], wait_for=["s1"])])
    e2 = T.prog([T.fn("n2", ["e0"], ["p"], func_key="E", fname="shared_emit_fn", emit=["s2"]), T.fn("w2", ["e0"], ["w0"], wait_for=["s2"])])
    yield "shared-function-different-signals", {"g": e1, "h": e2}, [{"e0": ["v", 0]}]
    # a SINGLE argument that shares an object internally in one run and is an equal value built from distinct objects in another
    a1 = T.prog([T.fn("dup", ["e0"], ["d0"], behav={"py": "(e0, e0)"}), T.fn("use", ["d0"], ["u0"], func_key="U", fname="one_arg_fn", behav={"py": "('U', d0)"})])
    a2 = T.prog([T.fn("dup2", ["e0"], ["d0"], behav={"py": "(e0, tuple(list(e0)))"}), T.fn("use2", ["d0"], ["u0"], func_key="U", fname="one_arg_fn", behav={"py": "('U', d0)"})])
    yield "single-argument-internal-sharing", {"g": a1, "h": a2}, [{"e0": ["v", 0]}]
    # nodes built from functools.partial over ONE function with different positionally bound values
    p2 = T.prog([T.fn("sc2", ["e0"], ["y"], func_key="P", fname="scaled_fn", partial=["k", 2])])
    p3 = T.prog([T.fn("sc3", ["e0"], ["y"], func_key="P", fname="scaled_fn", partial=["k", 3])])
    yield "partials-of-one-function", {"g": p2, "h": p3}, [{"e0": ["v", 0]}]
    gg = T.prog(
        [
            T.ifelse("gx", ["e0"], "ta", "tb", func_key="R", fname="shared_gate_fn", behav={"py": "e0[1] == 0"}),
            T.ifelse("gy", ["e0"], "tc", "td", func_key="R", fname="shared_gate_fn", behav={"py": "e0[1] == 0"}),
            T.fn("ta", ["e0"], ["ra"]),
            T.fn("tb", ["e0"], ["rb"]),
            T.fn("tc", ["e0"], ["rc"]),
            T.fn("td", ["e0"], ["rd"]),
        ]
    )
    yield "gates-sharing-function", {"g": gg}, [{"e0": ["v", 0]}, {"e0": ["v", 1]}]
    gs = T.prog(
        [
            T.ifelse("gx", ["e0"], "ta", "tb", func_key="R", fname="shared_gate_fn", behav={"py": "e0[1] == 0"}),
            T.ifelse("gz", ["e0"], "tb", "ta", func_key="R", fname="shared_gate_fn", behav={"py": "e0[1] == 0"}),
            T.fn("ta", ["e0"], ["ra"]),
            T.fn("tb", ["e0"], ["rb"]),
        ]
    )
    yield "gates-sharing-function-swapped-branches", {"g": gs}, [{"e0": ["v", 0]}, {"e0": ["v", 1]}]
    sg1 = T.prog([T.ifelse("gx", ["e0"], "ta", "tb", func_key="R", fname="shared_gate_fn", behav={"py": "e0[1] == 0"}), T.fn("ta", ["e0"], ["ra"]), T.fn("tb", ["e0"], ["rb"])])
    sg2 = T.prog([T.ifelse("gq", ["e0"], "tb", "ta", func_key="R", fname="shared_gate_fn", behav={"py": "e0[1] == 0"}), T.fn("ta2", ["e0"], ["ra"], name="ta"), T.fn("tb2", ["e0"], ["rb"], name="tb")])
    yield "swapped-branch-gates-across-graphs", {"g": sg1, "h": sg2}, [{"e0": ["v", 0]}]


def cacheable_subsets(progs, tier):
    ids = [s["id"] for p in progs.values() for s in p["nodes"] if s["kind"] in ("fn", "ifelse", "route")]
    ids = list(dict.fromkeys(ids))
    for r in range(1, len(ids) + 1):
        for sub in itertools.combinations(ids, r):
            if tier == "quick" and len(ids) > 4 and r not in (1, len(ids)):
                continue
            yield sub


def with_cache(progs, sub):
    out = {}
    for k, p in progs.items():
        p = copy.deepcopy(p)
        for s in p["nodes"]:
            if s["id"] in sub:
                s["cache"] = True
        out[k] = p
    return out


def model_key(spec, args):
    extra = ()
    if spec["kind"] == "ifelse":
        extra = (spec["when_true"], spec["when_false"])
    elif spec["kind"] == "route":
        extra = tuple(spec["targets"]) + (("fallback", spec.get("fallback")),)
    ro = spec.get("rename_out") or {}
    return (spec.get("func_key", spec["id"]), repr(sorted(args.items())), tuple(ro.get(o, o) for o in spec.get("outs", [])) + tuple(spec.get("emit", [])), extra)


BACKENDS = ["mem", "lru1", "lru2", "disk"]


def make_backend(kind, tmpdir, crash_before=None):
    from hypergraph.cache import DiskCache, InMemoryCache

    if kind == "mem":
        return InMemoryCache(), None
    if kind == "lru1":
        return InMemoryCache(max_size=1), None
    if kind == "lru2":
        return InMemoryCache(max_size=2), None
    dc = DiskCache(tmpdir)
    px = BackendProxy(dc._cache, crash_before)
    dc._cache = px
    return dc, px


def view(x):
    if x.exc is not None:
        return ("raised", type(x.exc).__name__, str(x.exc)[:80])
    r = x.result
    return (r.status.value, tuple(sorted((k, repr(v)) for k, v in r.values.items())), None if r.error is None else type(r.error).__name__)


def run_history(progs, cprogs, variants, hist, backend_kind, tmpdir, crash_before=None, reuse=None):
    """hist: list of (graph key, variant index, runner).  Returns (violations, info).
    ``reuse`` = info of an earlier call: continue on the very same backend INSTANCE and model."""
    vs = []
    if reuse is not None:
        backend, px, lru = reuse["backend"], reuse["proxy"], reuse["lru"]
    else:
        backend, px = make_backend(backend_kind, tmpdir, crash_before)
        lru = Lru({"mem": None, "lru1": 1, "lru2": 2, "disk": None}[backend_kind])
    info = {"hits": 0, "backend": backend, "proxy": px, "lru": lru, "runs": []}
    for pos, (gk, vi, runner) in enumerate(hist):
        inputs = variants[vi]
        # uncached reference
        hr = H()
        xr = execute(progs[gk], inputs, runner=runner, h=hr, max_iterations=50, error_handling="continue")
        # cached run
        hc = H()
        try:
            xc = execute(cprogs[gk], inputs, runner=runner, h=hc, cache=backend, max_iterations=50, error_handling="continue")
        except Crash:
            info["crashed"] = True
            return vs, info
        if any(isinstance(getattr(c, "exc", None), Crash) for c in hc.calls) or (xc.exc is not None and isinstance(xc.exc, Crash)):
            info["crashed"] = True
            return vs, info
        if px is not None and crash_before is not None and px.n > crash_before:
            info["crashed"] = True
            return vs, info
        info["runs"].append((gk, vi, runner))
        if view(xc) != view(xr):
            a, b = view(xc), view(xr)
            names_c = {k for k, _ in a[1]} if a[0] != "raised" else set()
            names_r = {k for k, _ in b[1]} if b[0] != "raised" else set()
            kind = "status" if a[0] != b[0] else ("names" if names_c != names_r else "values")
            vs.append((f"cached-run-differs-{kind}", f"run #{pos + 1} {gk}{inputs} on {backend_kind}: cached {jsonable(a)} vs uncached {jsonable(b)}"))
        # invocation discipline against the LRU model (sequence taken from the uncached run)
        expected = []
        specs = {s["id"]: s for s in cprogs[gk]["nodes"]}
        for c in hr.calls:
            s = specs[c.nid]
            if not s.get("cache"):
                expected.append((c.nid, repr(sorted(c.args.items()))))
                continue
            k = model_key(s, c.args)
            if lru.get(k):
                info["hits"] += 1
            else:
                expected.append((c.nid, repr(sorted(c.args.items()))))
                lru.set(k)
        got = [(c.nid, repr(sorted(c.args.items()))) for c in hc.calls]
        if sorted(got) != sorted(expected):
            extra = [g for g in got if g not in expected]
            missing = [e for e in expected if e not in got]
            sym = "function-invoked-despite-retained-entry" if extra and not missing else ("entry-served-to-wrong-node-or-arguments" if missing else "invocations-differ")
            vs.append((sym, f"run #{pos + 1} {gk}{inputs} on {backend_kind}: invoked {got} but the reference model expects {expected} (extra {extra}, not invoked {missing})"))
    return vs, info


def histories(progs, variants, tier):
    ops = [(gk, vi, r) for gk in progs for vi in range(len(variants)) for r in ("sync", "async")]
    depth = 2 if tier == "quick" else 3
    for d in range(1, depth + 1):
        for h in itertools.product(ops, repeat=d):
            if tier == "quick" and d == 2 and h[0][2] == h[1][2] == "async":
                continue
            yield list(h)


# ---------------------------------------------------------------- disk faults
CORRUPTIONS = ["bitflip", "truncate", "payload-not-bytes", "sig-missing", "sig-wrong-type", "sig-flipped", "sig-non-ascii", "sig-empty", "payload-missing", "transplant", "malicious-resigned-foreign-key"]


def corrupt(raw, key, kind, other_key=None):
    """Apply one corruption class to entry ``key`` of the raw diskcache.Cache."""
    sfx = ":hmac"
    payload = raw.get(key)
    sig = raw.get(key + sfx)
    if kind == "bitflip":
        b = bytearray(payload)
        b[len(b) // 2] ^= 0x01
        raw.set(key, bytes(b))
    elif kind == "truncate":
        raw.set(key, payload[: max(1, len(payload) // 2)])
    elif kind == "payload-not-bytes":
        raw.set(key, "not-bytes")
    elif kind == "sig-missing":
        raw.delete(key + sfx)
    elif kind == "sig-wrong-type":
        raw.set(key + sfx, 12345)
    elif kind == "sig-flipped":
        raw.set(key + sfx, ("0" if sig[0] != "0" else "1") + sig[1:])
    elif kind == "sig-non-ascii":
        raw.set(key + sfx, "\u00e9" + sig[1:])  # a damaged signature need not be ASCII
    elif kind == "sig-empty":
        raw.set(key + sfx, "")
    elif kind == "payload-missing":
        raw.delete(key)
    elif kind == "transplant":
        if other_key is None:
            return False
        raw.set(key, raw.get(other_key))
        raw.set(key + sfx, raw.get(other_key + sfx))
    elif kind == "malicious-resigned-foreign-key":
        # a well-formed pickle that would run code, signed with a DIFFERENT key
        import hashlib
        import hmac
        import pickle

        class Boom:
            def __reduce__(self):
                return (os.getenv, ("C09_MALICIOUS_PICKLE_EXECUTED",))

        evil = pickle.dumps({"x": Boom()})
        raw.set(key, evil)
        raw.set(key + sfx, hmac.new(b"k" * 32, key.encode() + evil, hashlib.sha256).hexdigest())
    return True


def disk_faults(acc, name, progs, cprogs, variants, sub, hist, tier):
    import hypergraph.cache as hc

    base = tempfile.mkdtemp(prefix="c09_", dir="/dev/shm" if os.path.isdir("/dev/shm") else None)
    try:
        d0 = os.path.join(base, "d0")
        vs, info = run_history(progs, cprogs, variants, hist, "disk", d0)
        raw0 = info["proxy"].inner
        keys = sorted(k for k in raw0.iterkeys() if not str(k).endswith(":hmac"))
        authentic = {v for k, v in info["proxy"].writes if isinstance(v, bytes)}
        nwrites = len(info["proxy"].writes)
        raw0.close()
        w = {"program": name, "cacheable": list(sub), "history": [list(h) for h in hist]}
        # (1) every stored entry x every corruption class
        for ki, key in enumerate(keys):
            for kind in CORRUPTIONS:
                d1 = os.path.join(base, f"c_{ki}_{kind}")
                shutil.copytree(d0, d1)
                import diskcache

                raw = diskcache.Cache(d1)
                other = next((k for k in keys if k != key), None)
                ok = corrupt(raw, key, kind, other)
                raw.close()
                if not ok:
                    continue
                spy = PickleSpy()
                old = hc.pickle
                hc.pickle = spy
                try:
                    vs2, info2 = run_history(progs, cprogs, variants, [hist[-1], hist[-1]], "disk", d1)
                except Exception as e:  # noqa: BLE001
                    vs2, info2 = [("exception-after-corruption", f"{type(e).__name__}: {str(e)[:120]}")], None
                finally:
                    hc.pickle = old
                acc.evaluations += 1
                acc.key((name, sub, repr(hist), "corrupt", ki, kind))
                auth_now = set(authentic)
                if info2 is not None:
                    auth_now |= {v for _, v in info2["proxy"].writes if isinstance(v, bytes)}  # what the post-fault runs re-stored
                bad_loads = [b for b in spy.loaded if b not in auth_now]
                # the LRU model in run_history starts empty -> it predicts every cacheable node runs; the real cache still
                # holds the undamaged entries, so only 'cached-run-differs' and exceptions are judged here
                for sym, msg in vs2:
                    if sym.startswith("cached-run-differs") or sym.startswith("exception"):
                        acc.violation({"symptom": sym, "fault": kind}, {**w, "fault": ["corrupt", ki, kind]}, f"{name} after {kind} of entry {ki}: {msg}")
                    elif msg.startswith("run #2") and sym == "function-invoked-despite-retained-entry":
                        # the first post-fault run re-stored the damaged entry, the second must hit everything
                        acc.violation({"symptom": "damaged-entry-never-restored", "fault": kind}, {**w, "fault": ["corrupt", ki, kind]}, f"{name} after {kind} of entry {ki}: {msg}")
                if bad_loads:
                    acc.violation({"symptom": "unauthenticated-bytes-unpickled", "fault": kind}, {**w, "fault": ["corrupt", ki, kind]}, f"{name} after {kind} of entry {ki}: pickle.loads was called on {len(bad_loads)} byte string(s) the cache never wrote")
                if info2 is not None:
                    still = info2["proxy"].inner.get(key)
                    info2["proxy"].inner.close()
                shutil.rmtree(d1, ignore_errors=True)
        # (1b) the same corruption applied IN PLACE while the same DiskCache instance lives on, after it has
        #      already served the entry once (a per-instance 'already verified' shortcut must not exist)
        for ki, key in enumerate(keys):
            for kind in ("bitflip", "truncate", "malicious-resigned-foreign-key", "transplant"):
                d1 = os.path.join(base, f"ip_{ki}_{kind}")
                vsa, infa = run_history(progs, cprogs, variants, hist + [hist[-1]], "disk", d1)
                rawp = infa["proxy"].inner
                keys_now = sorted(k for k in rawp.iterkeys() if not str(k).endswith(":hmac"))
                if key not in keys_now:
                    rawp.close()
                    shutil.rmtree(d1, ignore_errors=True)
                    continue
                auth = {v for k, v in infa["proxy"].writes if isinstance(v, bytes)}
                payload_before = rawp.get(key)
                if kind == "malicious-resigned-foreign-key":
                    # keep the ORIGINAL signature: only the payload changes (signature still 'looks' verified)
                    sig = rawp.get(key + ":hmac")
                    corrupt(rawp, key, kind, None)
                    rawp.set(key + ":hmac", sig)
                else:
                    other = next((k for k in keys_now if k != key), None)
                    if not corrupt(rawp, key, kind, other):
                        rawp.close()
                        shutil.rmtree(d1, ignore_errors=True)
                        continue
                spy = PickleSpy()
                old = hc.pickle
                hc.pickle = spy
                try:
                    vsb, infb = run_history(progs, cprogs, variants, [hist[-1]], "disk", d1, reuse=infa)
                except Exception as e:  # noqa: BLE001
                    vsb = [("exception-after-corruption", f"{type(e).__name__}: {str(e)[:120]}")]
                finally:
                    hc.pickle = old
                acc.evaluations += 1
                acc.key((name, sub, repr(hist), "in-place", ki, kind))
                for sym, msg in vsb:
                    if sym.startswith("cached-run-differs") or sym.startswith("exception"):
                        acc.violation({"symptom": sym, "fault": kind, "mode": "same-instance"}, {**w, "fault": ["in-place", ki, kind]}, f"{name} after in-place {kind} of entry {ki} (same DiskCache instance, entry served before): {msg}")
                if [b for b in spy.loaded if b not in auth]:
                    acc.violation({"symptom": "unauthenticated-bytes-unpickled", "fault": kind, "mode": "same-instance"}, {**w, "fault": ["in-place", ki, kind]}, f"{name} after in-place {kind} of entry {ki}: the live DiskCache instance unpickled bytes it never wrote")
                rawp.close()
                shutil.rmtree(d1, ignore_errors=True)
        # (2) every crash point of the write log
        for k in range(nwrites):
            d2 = os.path.join(base, f"crash_{k}")
            try:
                vs3, info3 = run_history(progs, cprogs, variants, hist, "disk", d2, crash_before=k)
            except Exception as e:  # noqa: BLE001 - the crashing process's own fate is not judged
                info3 = None
            if info3 is not None:
                info3["proxy"].inner.close()
            spy = PickleSpy()
            old = hc.pickle
            hc.pickle = spy
            try:
                vs4, info4 = run_history(progs, cprogs, variants, [hist[-1]], "disk", d2)
            except Exception as e:  # noqa: BLE001
                vs4, info4 = [("exception-after-crash", f"{type(e).__name__}: {str(e)[:120]}")], None
            finally:
                hc.pickle = old
            acc.evaluations += 1
            acc.key((name, sub, repr(hist), "crash", k))
            for sym, msg in vs4:
                if sym.startswith("cached-run-differs") or sym.startswith("exception"):
                    acc.violation({"symptom": sym, "fault": "crash"}, {**w, "fault": ["crash", k]}, f"{name} after a crash before write {k}: {msg}")
            # after a crash the authentic set is what the crashed process managed to write
            if info3 is not None:
                auth2 = {v for _, v in info3["proxy"].writes if isinstance(v, bytes)}
                if [b for b in spy.loaded if b not in auth2 and b not in authentic]:
                    acc.violation({"symptom": "unauthenticated-bytes-unpickled", "fault": "crash"}, {**w, "fault": ["crash", k]}, f"{name} after a crash before write {k}: unauthenticated bytes unpickled")
            if info4 is not None:
                info4["proxy"].inner.close()
            shutil.rmtree(d2, ignore_errors=True)
        acc.counters[f"disk_entries[{name}]"] = max(acc.counters.get(f"disk_entries[{name}]", 0), len(keys))
        acc.counters[f"write_log_len[{name}]"] = max(acc.counters.get(f"write_log_len[{name}]", 0), nwrites)
    finally:
        shutil.rmtree(base, ignore_errors=True)


# ---------------------------------------------------------------- relatives derived from a node AFTER it ran against the cache
def derive_after_run(acc, tier):
    """A cacheable node object runs against a cache; a relative is THEN derived from that very object (renamed outputs / inputs /
    name, for function nodes, interrupts and gates) and runs against the same cache with the same argument values, in one graph
    with a renamed consumer.  Whatever is or is not a hit, every run must equal the uncached run of the same graph, and the original
    run again afterwards must still be served its own entry (no second invocation)."""
    import tempfile

    from hypergraph import Graph
    from hypergraph.cache import DiskCache, InMemoryCache

    from ..dsl import build_node, run_async, run_sync, touch

    derivs = [
        ("with_outputs", lambda n: n.with_outputs(p="q"), {"p": "q"}, {}),
        ("with_outputs-swap", lambda n: n.with_outputs(p="p2", p2="p"), {"p": "p2", "p2": "p"}, {}),
        ("with_inputs", lambda n: n.with_inputs(a="b"), {}, {"a": "b"}),
        ("with_name", lambda n: n.with_name("other"), {}, {}),
        ("with_outputs.with_inputs", lambda n: n.with_outputs(p="q").with_inputs(a="b"), {"p": "q"}, {"a": "b"}),
    ]
    for runner in ("sync", "async"):
        for bk in ("mem", "disk"):
            for kind in ("fn1", "fn2", "interrupt"):
                if kind == "interrupt" and runner == "sync":
                    continue
                for dname, derive, rn_out, rn_in in derivs:
                    if "swap" in dname and kind != "fn2":
                        continue
                    for warm_first in (True, False):
                        h = H()
                        outs = ["p", "p2"] if kind == "fn2" else ["p"]
                        spec = (T.interrupt if kind == "interrupt" else T.fn)("src", ["a"], outs, cache=True)
                        if kind == "interrupt":
                            spec["behav"] = "answer"
                        spec = T.set_async(T.prog([spec]), runner == "async")["nodes"][0]
                        base = build_node(spec, h)
                        cons = build_node(T.set_async(T.prog([T.fn("use", ["p"], ["r"])]), runner == "async")["nodes"][0], h)
                        tmp = tempfile.mkdtemp(prefix="c09d_", dir="/dev/shm" if os.path.isdir("/dev/shm") else None)
                        cache = InMemoryCache() if bk == "mem" else DiskCache(tmp)
                        run = (lambda g, ins, c: run_sync(g, ins, h, cache=c)) if runner == "sync" else (lambda g, ins, c: run_async(g, ins, h, None, cache=c))
                        w = {"derive_after_run": True}
                        try:
                            g1 = Graph([base, cons])
                            ins1 = {"a": ("v", 0)}
                            ref1 = run(g1, dict(ins1), None).values
                            if warm_first:
                                run(g1, dict(ins1), cache)  # the base object has now been used against the cache
                            touch(base)
                            rel = derive(base)
                            cons2 = cons.with_inputs(p=rn_out["p"]) if "p" in rn_out else cons
                            g2 = Graph([rel, cons2])
                            ins2 = {rn_in.get("a", "a"): ("v", 0)}
                            ref2 = run(g2, dict(ins2), None).values
                            n0 = len(h.calls)
                            got2 = run(g2, dict(ins2), cache).values
                            got1 = run(g1, dict(ins1), cache).values
                            n_src = sum(1 for c in h.calls[n0:] if c.nid == "src")
                            acc.evaluations += 5
                            acc.key(("derive-after-run", runner, bk, kind, dname, warm_first))
                            if got2 != ref2:
                                acc.violation({"symptom": "derived-relative-served-wrong-entry", "derive": dname.split("-")[0], "kind": kind}, w, f"{kind} node run against the cache ({'before' if warm_first else 'only after'} deriving), relative derived by {dname}, {runner}/{bk}: cached run of the relative returned {jsonable(got2)}, uncached {jsonable(ref2)}")
                            if got1 != ref1:
                                acc.violation({"symptom": "original-served-wrong-entry-after-relative", "derive": dname.split("-")[0], "kind": kind}, w, f"{kind} node, relative derived by {dname}, {runner}/{bk}: the ORIGINAL graph run after the relative returned {jsonable(got1)}, uncached {jsonable(ref1)}")
                            if warm_first and kind != "interrupt" and n_src > (0 if dname in ("with_name", "with_inputs") else 1):
                                acc.violation({"symptom": "retained-entry-not-served", "derive": dname.split("-")[0], "kind": kind}, w, f"{kind} node, relative derived by {dname}, {runner}/{bk}: the function ran {n_src} more times although its entry (same definition, arguments and output names) was retained")
                        except Exception as e:  # noqa: BLE001
                            acc.violation({"symptom": "derive-after-run-raised", "derive": dname.split("-")[0], "kind": kind}, w, f"{kind} node, relative derived by {dname}, {runner}/{bk}: {type(e).__name__}: {str(e)[:150]}")
                        finally:
                            if bk == "disk":
                                try:
                                    cache._cache.close()
                                except Exception:  # noqa: BLE001
                                    pass
                            shutil.rmtree(tmp, ignore_errors=True)


def equal_but_different_args(acc):
    """'never served to a node with ... different arguments': arguments that compare (and hash) equal but are different values -
    1 / True / 1.0, 0 / False / 0.0, tuples of them, -0.0 / 0.0 - run one after the other against one cache, every order of each
    triple; each run must equal the uncached run, and the SAME value again must be served from the retained entry."""
    import tempfile

    from hypergraph.cache import DiskCache, InMemoryCache

    groups = [[1, True, 1.0], [0, False, 0.0], [(1, 2), (True, 2), (1.0, 2.0)], [0.0, -0.0], ["1", 1]]
    for runner in ("sync", "async"):
        for bk in ("mem", "disk"):
            for gi, grp in enumerate(groups):
                for perm in itertools.permutations(range(len(grp))):
                    h = H()
                    prog = T.set_async(T.prog([T.fn("desc", ["x"], ["d"], cache=True, behav={"py": "(type(x).__name__, repr(x))"}), T.fn("use", ["d"], ["u"], behav={"py": "('use', d)"})]), runner == "async")
                    g = build(prog, h)
                    tmp = tempfile.mkdtemp(prefix="c09e_", dir="/dev/shm" if os.path.isdir("/dev/shm") else None)
                    cache = InMemoryCache() if bk == "mem" else DiskCache(tmp)
                    w = {"equal_but_different_args": True}
                    try:
                        seq = [grp[i] for i in perm] + [grp[perm[0]]]
                        for k, v in enumerate(seq):
                            n0 = sum(1 for c in h.calls if c.nid == "desc")
                            x = execute(prog, {"x": v}, runner=runner, h=h, graph=g, cache=cache, canon_inputs=False)
                            acc.evaluations += 1
                            exp = {"d": (type(v).__name__, repr(v)), "u": ("use", (type(v).__name__, repr(v)))}
                            got = None if x.result is None else dict(x.result.values)
                            if x.exc is not None or got != exp:
                                acc.violation({"symptom": "entry-served-for-different-arguments", "backend": bk}, w, f"cached node called with x={v!r} after {[repr(s_) for s_ in seq[:k]]} ({runner}/{bk}): got {jsonable(got) if x.exc is None else repr(x.exc)}, uncached gives {jsonable(exp)}")
                                break
                            ran = sum(1 for c in h.calls if c.nid == "desc") - n0
                            if k == len(seq) - 1 and ran != 0:
                                acc.violation({"symptom": "retained-entry-not-served", "backend": bk, "kind": "equal-args"}, w, f"x={v!r} again after {[repr(s_) for s_ in seq[:k]]} ({runner}/{bk}): the function ran again although its entry was retained")
                        acc.key(("equal-args", runner, bk, gi, perm))
                    finally:
                        if bk == "disk":
                            try:
                                cache._cache.close()
                            except Exception:  # noqa: BLE001
                                pass
                        shutil.rmtree(tmp, ignore_errors=True)


def undeserialisable_entries(acc):
    """'any anomaly evicts and misses': an AUTHENTIC disk entry (payload and signature intact) whose unpickling fails in the reading
    process - the value's class was removed / its module is gone / its __setstate__ raises - is a miss: no exception, the function
    runs again, the result equals the uncached run.  Same instance and a re-opened cache; both runners."""
    import sys
    import tempfile
    import types

    from hypergraph.cache import DiskCache

    for runner in ("sync", "async"):
        for failure in ("class-removed", "module-removed", "setstate-raises"):
            for reopen in (False, True):
                mod = types.ModuleType("mc_c09_values")
                exec("class Val:\n    def __init__(self, v):\n        self.v = v\n    def __eq__(self, o):\n        return type(o).__name__ == 'Val' and o.v == self.v\n    def __hash__(self):\n        return hash(self.v)\n    def __repr__(self):\n        return 'Val(%r)' % (self.v,)\n", mod.__dict__)
                sys.modules["mc_c09_values"] = mod
                mod.Val.__module__ = "mc_c09_values"
                h = H()
                h.mod = mod
                prog = T.set_async(T.prog([T.fn("mkv", ["x"], ["val"], cache=True, behav={"py": "H.mod.Val(x)"}), T.fn("usev", ["val"], ["u"], behav={"py": "('use', val.v)"})]), runner == "async")
                g = build(prog, h)
                tmp = tempfile.mkdtemp(prefix="c09u_", dir="/dev/shm" if os.path.isdir("/dev/shm") else None)
                w = {"undeserialisable_entries": True}
                dc = DiskCache(tmp)
                try:
                    x1 = execute(prog, {"x": 7}, runner=runner, h=h, graph=g, cache=dc)
                    ref = None if x1.result is None else repr(sorted(x1.result.values.items(), key=repr))
                    # break deserialisation of what was stored (new instances can still be made by the node function)
                    keep = mod.Val
                    if failure == "class-removed":
                        del mod.Val
                        h.mod = types.SimpleNamespace(Val=keep)
                    elif failure == "module-removed":
                        del sys.modules["mc_c09_values"]
                    else:
                        def boom(self, state):
                            raise RuntimeError("cannot restore")

                        keep.__setstate__ = boom
                    if reopen:
                        dc._cache.close()
                        dc = DiskCache(tmp)
                    n0 = sum(1 for c in h.calls if c.nid == "mkv")
                    x2 = execute(prog, {"x": 7}, runner=runner, h=h, graph=g, cache=dc)
                    acc.evaluations += 2
                    acc.key(("undeserialisable", runner, failure, reopen))
                    got = None if x2.result is None else repr(sorted(x2.result.values.items(), key=repr))
                    ran = sum(1 for c in h.calls if c.nid == "mkv") - n0
                    if x2.exc is not None or x2.status != "completed" or got != ref or ran != 1:
                        acc.violation({"symptom": "undeserialisable-entry-not-a-miss", "failure": failure}, w, f"authentic disk entry whose unpickling fails ({failure}, {'re-opened' if reopen else 'same'} cache, {runner}): status {x2.status} exc={x2.exc!r} error={getattr(x2.result, 'error', None)!r}, function re-ran {ran}x (expected a clean miss: completed, re-run once, same result)")
                finally:
                    sys.modules.pop("mc_c09_values", None)
                    try:
                        dc._cache.close()
                    except Exception:  # noqa: BLE001
                        pass
                    shutil.rmtree(tmp, ignore_errors=True)


def shards(tier, seed):
    out = []
    for pi, (name, progs, variants) in enumerate(programs()):
        subs = list(cacheable_subsets(progs, tier))
        for si in range(len(subs)):
            out.append((tier, seed, pi, si))
    out.append((tier, seed, "derive-after-run", 0))
    out.append((tier, seed, "equal-args", 0))
    out.append((tier, seed, "cached-interrupt", 0))
    out.append((tier, seed, "undeserialisable", 0))
    return out


def run_shard(shard):
    tier, seed, pi, si = shard
    acc = Acc()
    if pi == "derive-after-run":
        derive_after_run(acc, tier)
        return acc
    if pi == "equal-args":
        equal_but_different_args(acc)
        return acc
    if pi == "undeserialisable":
        undeserialisable_entries(acc)
        return acc
    if pi == "cached-interrupt":
        # cache=True on an interrupt (with and without an emit signal): every call history on one cache equals the uncached runner
        from . import c14

        c14.cached_interrupt_histories(acc, 2 if tier == "quick" else 3)
        return acc
    name, progs, variants = list(programs())[pi]
    sub = list(cacheable_subsets(progs, tier))[si]
    cprogs = with_cache(progs, sub)
    base = tempfile.mkdtemp(prefix="c09m_", dir="/dev/shm" if os.path.isdir("/dev/shm") else None)
    try:
        n = 0
        for hist in histories(progs, variants, tier):
            for bk in BACKENDS:
                if bk == "disk" and (len(hist) > 2 or (tier == "quick" and (len(sub) not in (1, len({s['id'] for p in progs.values() for s in p['nodes'] if s['kind'] != 'graph'})) and len(hist) > 1))):
                    continue
                n += 1
                d = os.path.join(base, f"h{n}")
                try:
                    vs, info = run_history(progs, cprogs, variants, hist, bk, d)
                finally:
                    pass
                if info.get("proxy") is not None:
                    info["proxy"].inner.close()
                    shutil.rmtree(d, ignore_errors=True)
                acc.evaluations += len(hist)
                if info["hits"]:
                    acc.key((name, sub, bk, repr(hist)))
                acc.outcomes[(name, bk, "ok" if not vs else vs[0][0])] += 1
                for sym, msg in vs:
                    acc.violation({"symptom": sym, "program": name}, {"program": name, "cacheable": list(sub), "history": [list(h) for h in hist], "backend": bk}, f"{name} cacheable={list(sub)}: {msg}", size=len(repr(hist)) + len(sub))
        # disk fault menus on one two-run history per (program, subset): both variants, then the first again
        gk = list(progs)[-1]
        fh = [(list(progs)[0], 0, "sync"), (gk, 0, "async")]
        if tier == "thorough" or len(sub) in (1, 2) or si % 3 == 0:
            disk_faults(acc, name, progs, cprogs, variants, sub, fh, tier)
        acc.sample({"program": name, "cacheable": list(sub), "histories": n}, 1)
    finally:
        shutil.rmtree(base, ignore_errors=True)
    return acc


def coverage_extra(acc, tier, seed):
    return {"bounds": {"history_length": 2 if tier == "quick" else 3, "backends": BACKENDS, "corruption_classes": CORRUPTIONS, "crash_points": "every prefix of the backend write log"}}


def replay(rep):
    acc = Acc()
    if rep.get("undeserialisable_entries"):
        undeserialisable_entries(acc)
        return [v["message"] for v in acc.violations.values()]
    if rep.get("cached_interrupt"):
        from . import c14

        c14.cached_interrupt_histories(acc, 3)
        return [v["message"] for v in acc.violations.values()]
    if rep.get("equal_but_different_args"):
        equal_but_different_args(acc)
        return [v["message"] for v in acc.violations.values()]
    if rep.get("derive_after_run"):
        derive_after_run(acc, "quick")
        return [v["message"] for v in acc.violations.values()]
    name = rep["program"]
    _, progs, variants = next(p for p in programs() if p[0] == name)
    sub = tuple(rep["cacheable"])
    cprogs = with_cache(progs, sub)
    hist = [tuple(h) for h in rep["history"]]
    if "fault" in rep:
        disk_faults(acc, name, progs, cprogs, variants, sub, hist, "quick")
        return [v["message"] for v in acc.violations.values()]
    base = tempfile.mkdtemp(prefix="c09r_")
    try:
        vs, info = run_history(progs, cprogs, variants, hist, rep["backend"], os.path.join(base, "d"))
        if info.get("proxy") is not None:
            info["proxy"].inner.close()
    finally:
        shutil.rmtree(base, ignore_errors=True)
    return [m for _, m in vs]
