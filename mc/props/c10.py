"""C10 - map: one result per combination, in input order, equal to a single run (DESIGN 4, C10)."""
from __future__ import annotations

import itertools

from .. import templates as T
from ..dsl import H, build, canon, err_view, execute, jsonable
from ..evidence import Acc, account_sched
from ..explorer import explore, run_once

PID = "C10"
LEVEL = "exploration"
TECHNIQUE = "bounded-exhaustive enumeration of map configurations x all completion orders of item bodies under a virtual event loop, differential against single runs of the same graph"
LEVEL_TEXT = (
    "every configuration inside the bounds (inner graph kind, 1-3 mapped parameters, zip/product, all length vectors incl. empty, broadcast "
    "value, clone setting, error handling, runner.map vs mapping node incl. renames, both runners, max_concurrency in {None,1,2}) is executed and, "
    "for the async runner, under EVERY completion order of the item bodies; each is compared with the list of single-run results."
)
LEVEL_NOTE = "the reference is the library's own single run on each combination (that is what the property states); combination order (positional / row-major) is computed by the harness"
RULE = (
    "configurations enumerated exhaustively; async executions explored over all 'sched' orders (cap reported). distinct_nontrivial = distinct "
    "(configuration) keys with >=2 items. evaluations = executions of map (reference single runs not counted)."
)
ASSUMPTIONS = ["item bodies suspend once; items are opaque tokens ('i', j)", "an item 'fails' when a node function raises for that item's value"]

PARAMS = ["x", "w", "v"]


def inner_graph(kind, nparams, bcast, fail_items):
    ps = PARAMS[:nparams]
    extra = ["cfg"] if bcast else []
    if kind == "single":
        n = T.fn("mb", ps + extra, ["b0"], behav={"py": "('b', " + ", ".join(ps) + ")"})
        if fail_items:
            n["fail_args"] = {"x": fail_items}
        return T.prog([n], name="item")
    if kind == "chain":
        a = T.fn("mb", ps, ["b0"], behav={"py": "('b', " + ", ".join(ps) + ")"})
        b = T.fn("mc", ["b0"] + extra, ["c0", "c1"], behav={"py": "(('c0', b0), ('c1', b0))"})
        if fail_items:
            # the item fails in the SECOND step, after b0 was produced (partial values exist)
            b["fail_if"] = f"b0[1] in {[tuple(i) for i in fail_items]!r}"
        return T.prog([a, b], name="item")
    if kind == "branch":
        g = T.ifelse("gt", ["x"], "pos", "neg", behav={"py": "x[1] % 2 == 0"})
        p = T.fn("pos", ps + extra, ["p"], behav={"py": "('p', " + ", ".join(ps) + ")"})
        n = T.fn("neg", ps + extra, ["n"], behav={"py": "('n', " + ", ".join(ps) + ")"})
        return T.prog([g, p, n], name="item")
    raise ValueError(kind)


def combos(mode, lists):
    """Reference combination order: zip = position-wise, product = row-major (first mapped parameter slowest)."""
    if mode == "zip":
        return [tuple(col) for col in zip(*lists)]
    return list(itertools.product(*lists))


def configs(tier):
    maxlen = 2 if tier == "quick" else 3
    for kind in ("single", "chain", "branch"):
        for nparams in (1, 2) if tier == "quick" else (1, 2, 3):
            for mode in ("zip", "product"):
                if nparams == 1 and mode == "product":
                    continue
                lens_iter = itertools.product(range(0, maxlen + 1), repeat=nparams)
                for lens in lens_iter:
                    if mode == "zip" and len(set(lens)) > 1:
                        continue
                    ncomb = lens[0] if mode == "zip" else _prod(lens)
                    if ncomb > (4 if tier == "quick" else 6):
                        continue
                    for bcast in (False, True):
                        clones = [False] if not bcast else [False, True, ["cfg"]]
                        for clone in clones:
                            fails = [()]
                            if kind != "branch" and lens[0] > 0:
                                fails += [(j,) for j in range(lens[0])]
                                if lens[0] >= 2:
                                    fails.append((0, lens[0] - 1))
                            for fail in fails:
                                for eh in ("raise", "continue"):
                                    for entry in ("map", "node", "node-renamed"):
                                        if clone is not False and kind != "single":
                                            continue
                                        if entry == "node-renamed" and nparams > 2:
                                            continue
                                        orders_ = ["same"]
                                        if nparams >= 2 and not fail and not bcast and entry != "node-renamed":
                                            # the combination order is defined by map_over, not by how the caller's dict happens to be ordered
                                            orders_ += ["values-dict-reversed", "map_over-reversed"]
                                        for order in orders_:
                                            yield dict(kind=kind, nparams=nparams, mode=mode, lens=list(lens), bcast=bcast, clone=clone, fail=list(fail), eh=eh, entry=entry, order=order)


def _prod(xs):
    r = 1
    for x in xs:
        r *= x
    return r


def shards(tier, seed):
    n = 64 if tier == "quick" else 256
    return [(tier, seed, s, n) for s in range(n)]


def materialize(cfg):
    """-> (inner_prog, outer_prog|None, inputs, map kwargs, combination list, output names)"""
    ps = PARAMS[: cfg["nparams"]]
    lists = [[(p[0], j) for j in range(n)] for p, n in zip(ps, cfg["lens"])]
    lists[0] = [("i", j) for j in range(cfg["lens"][0])]
    fail_items = [("i", j) for j in cfg["fail"]]
    inner = inner_graph(cfg["kind"], cfg["nparams"], cfg["bcast"], fail_items)
    inputs = {p: [list(v) for v in l] for p, l in zip(ps, lists)}
    if cfg["bcast"]:
        # the broadcast value is a list in half of the configurations and a TUPLE with a mutable member in the other half
        # (cloning is about the whole value: an immutable container may still hold something an item can mutate)
        tuple_form = (len(cfg["lens"]) + sum(cfg["lens"]) + len(cfg["kind"])) % 2 == 1
        inputs["cfg"] = [{"$list": ["cfgval"]}, "k"] if tuple_form else {"$list": ["cfgval"]}
    order = cfg.get("order", "same")
    if order == "values-dict-reversed":
        inputs = dict(reversed(list(inputs.items())))
    if order == "map_over-reversed":
        # map_over lists the parameters in reverse: the FIRST LISTED one varies slowest
        ps = list(reversed(ps))
        lists = list(reversed(lists))
    cs = [dict(zip(ps, c)) for c in combos(cfg["mode"], lists)]
    return inner, ps, inputs, cs


def single_results(inner, ps, cs, bcast, runner):
    """Reference: the library's own single run on each combination."""
    out = []
    for combo in cs:
        h = H()
        ins = dict(combo)
        if bcast:
            ins["cfg"] = ["cfgval"] if bcast is True else canon(bcast)
        p = T.set_async(inner, runner == "async")
        g = build(p, h)
        from ..dsl import run_async, run_sync

        if runner == "sync":
            r = run_sync(g, ins, h, error_handling="continue")
        else:
            r = run_async(g, ins, h, None, error_handling="continue")
        out.append((r.status.value, dict(r.values), err_view(r.error)))
    return out


def run_cfg(cfg, runner, k, ch):
    inner, ps, inputs, cs = materialize(cfg)
    inner = T.set_async(inner, runner == "async")
    h = H(ch, suspend=(runner == "async"))
    ids = []

    def hook(c, phase):
        if "cfg" in c.args:
            ids.append(id(c.args["cfg"]))

    h.body_hook = hook
    inputs_c = {k_: canon(v) for k_, v in inputs.items()}
    if cfg["entry"] == "map":
        x = execute(inner, inputs_c, runner=runner, chooser=ch, h=h, method="map", map_over=list(ps), map_mode=cfg["mode"], clone=cfg["clone"] if cfg["clone"] is not False else None, error_handling=cfg["eh"], max_concurrency=k, canon_inputs=False)
    else:
        spec = T.gnode("item", inner, map_over=list(ps), map_mode=cfg["mode"], map_err=cfg["eh"], clone=cfg["clone"])
        if cfg["entry"] == "node-renamed":
            rn_in = {p: p + "s" for p in ps}
            if cfg["bcast"]:
                rn_in["cfg"] = "cfgs"  # the broadcast (possibly cloned) input is renamed on the wrapper as well
            outs = _outs(cfg["kind"])
            spec["rename_in"] = rn_in
            spec["rename_out"] = {o: o + "s" for o in outs}
            spec["map_over"] = list(ps)
            inputs_c = {rn_in.get(k_, k_): v for k_, v in inputs_c.items()}
        outer = T.prog([spec])
        x = execute(outer, inputs_c, runner=runner, chooser=ch, h=h, error_handling="raise", max_concurrency=k, canon_inputs=False)
    x.h.cfg_ids = ids
    x.h.cfg_orig = id(inputs_c.get("cfgs" if cfg["entry"] == "node-renamed" else "cfg")) if cfg["bcast"] else None
    return x


def _outs(kind):
    return {"single": ["b0"], "chain": ["b0", "c0", "c1"], "branch": ["p", "n"]}[kind]


def judge(cfg, x, ref):
    out = []
    ncomb = len(ref)
    if x.deadlock or x.horizon:
        return [({"symptom": "no-termination"}, "map did not terminate under this schedule")]
    first_fail = next((r for r in ref if r[0] == "failed"), None)
    if cfg["entry"] == "map":
        if cfg["eh"] == "raise" and first_fail is not None:
            if x.exc is None or err_view(x.exc) != first_fail[2]:
                out.append(({"symptom": "raise-mode-wrong-error", "entry": "map"}, f"raise mode: expected the first failing item's error {first_fail[2]}, got {err_view(x.exc) if x.exc else x.status}"))
            return out
        if x.exc is not None:
            return [({"symptom": "unexpected-exception", "entry": "map", "type": type(x.exc).__name__}, f"map raised {type(x.exc).__name__}: {x.exc}")]
        got = [(r.status.value, dict(r.values), err_view(r.error)) for r in x.result]
        if got != ref:
            sym = "length" if len(got) != len(ref) else "order-or-content"
            out.append(({"symptom": "map-results-" + sym, "entry": "map"}, f"runner.map returned {jsonable(got)} expected {jsonable(ref)}"))
    else:
        if cfg["eh"] == "raise" and first_fail is not None:
            if x.exc is None or err_view(x.exc) != first_fail[2]:
                out.append(({"symptom": "raise-mode-wrong-error", "entry": "node"}, f"raise mode: expected the first failing item's error {first_fail[2]}, got {err_view(x.exc) if x.exc else x.status}"))
            return out
        if x.exc is not None:
            return [({"symptom": "unexpected-exception", "entry": "node", "type": type(x.exc).__name__}, f"run raised {type(x.exc).__name__}: {x.exc}")]
        suffix = "s" if cfg["entry"] == "node-renamed" else ""
        exp = {}
        for o in _outs(cfg["kind"]):
            exp[o + suffix] = [(r[1].get(o) if r[0] == "completed" else None) for r in ref]
        got = dict(x.result.values)
        if got != exp:
            lens = {k: len(v) for k, v in got.items() if isinstance(v, list)}
            if any(n != ncomb for n in lens.values()) or set(got) != set(exp):
                sym = "list-length"
            else:
                sym = "alignment"
            out.append(({"symptom": "mapping-node-" + sym, "kind": cfg["kind"], "failing_items": bool(cfg["fail"])}, f"mapping node outputs {jsonable(got)} expected {jsonable(exp)}"))
    # clone: each item gets its own copy / shared object
    if cfg["bcast"] and ncomb and x.exc is None:
        ids = x.h.cfg_ids
        if cfg["clone"] is False:
            if cfg["entry"] == "map" and any(i != x.h.cfg_orig for i in ids):
                out.append(({"symptom": "broadcast-copied-without-clone"}, "broadcast value was copied although clone=False"))
        else:
            if len(set(ids)) != len(ids) or x.h.cfg_orig in ids:
                out.append(({"symptom": "clone-not-per-item"}, f"clone={cfg['clone']}: items did not each receive their own copy"))
    return out


def derive_after_use(acc):
    """A mapping node that has been RUN, then re-configured with map_over on another parameter (and renamed):
    the derived node must map over the new parameter."""
    from hypergraph import Graph

    from ..dsl import build_node, run_async, run_sync

    for runner in ("sync", "async"):
        h = H()
        inner = T.set_async(T.prog([T.fn("mb", ["x", "w"], ["b0"], behav={"py": "('b', x, w)"})], name="item"), runner == "async")
        base = build_node(T.gnode("item", inner), h)
        n1 = base.map_over("x")
        run = (lambda g, ins: run_sync(g, ins, h)) if runner == "sync" else (lambda g, ins: run_async(g, ins, h, None))
        r1 = run(Graph([n1]), {"x": [1, 2], "w": 10})
        exp1 = [("b", 1, 10), ("b", 2, 10)]
        w_ = {"derive_after_use": True, "runner": runner}
        acc.evaluations += 1
        if r1.values.get("b0") != exp1:
            acc.violation({"symptom": "mapping-node-alignment", "kind": "derive-after-use", "failing_items": False}, w_, f"map_over('x'): {r1.values}")
        variants = [
            ("map_over(w)", lambda: n1.map_over("w"), {"x": 1, "w": [10, 20, 30]}, [("b", 1, 10), ("b", 1, 20), ("b", 1, 30)]),
            ("map_over(x,w,product)", lambda: n1.map_over("x", "w", mode="product"), {"x": [1, 2], "w": [10, 20]}, [("b", 1, 10), ("b", 1, 20), ("b", 2, 10), ("b", 2, 20)]),
            ("with_inputs(x->xs)", lambda: n1.with_inputs(x="xs"), {"xs": [3, 4], "w": 10}, [("b", 3, 10), ("b", 4, 10)]),
            ("map_over(w).with_inputs(w->ws)", lambda: n1.map_over("w").with_inputs(w="ws"), {"x": 1, "ws": [7, 8]}, [("b", 1, 7), ("b", 1, 8)]),
        ]
        for label, mk, ins, exp in variants:
            acc.evaluations += 1
            acc.key(("derive-after-use", runner, label))
            try:
                n2 = mk()
                r2 = run(Graph([n2]), ins)
                got = r2.values.get("b0")
            except Exception as e:  # noqa: BLE001
                got = f"{type(e).__name__}: {str(e)[:80]}"
            if got != exp:
                acc.violation({"symptom": "mapping-node-alignment", "kind": "derive-after-use", "failing_items": False}, w_, f"after running a node mapped over x, the derived node {label} gave {jsonable(got)} expected {jsonable(exp)}")
            # the receiver itself still maps over x
            r3 = run(Graph([n1]), {"x": [1, 2], "w": 10})
            if r3.values.get("b0") != exp1:
                acc.violation({"symptom": "mapping-node-alignment", "kind": "derive-after-use-receiver", "failing_items": False}, w_, f"deriving {label} changed the receiver: {jsonable(r3.values)}")


def mutable_default_items(acc):
    """'each equal to what a single run on that combination returns' when the inner function MUTATES a mutable signature
    default: every item (runner.map and mapping node, zip and product, plain and renamed wrapper, both runners, the same
    graph object mapped twice) must see a fresh default, exactly as single runs do."""
    f = T.fn("mf", ["x", "bag"], ["out"], defaults={"bag": {"$list": []}}, behav={"py": "(bag.append(x), tuple(bag))[1]"})
    f2 = T.fn("mf", ["x", "w", "bag"], ["out"], defaults={"bag": {"$list": []}}, behav={"py": "(bag.append((x, w)), tuple(bag))[1]"})
    xs = [("i", 0), ("i", 1), ("i", 2)]
    ws = [("w", 0), ("w", 1)]
    for runner in ("sync", "async"):
        for shape in ("zip1", "product2"):
            inner = T.set_async(T.prog([f if shape == "zip1" else f2], name="item"), runner == "async")
            combos = [(x,) for x in xs] if shape == "zip1" else [(x, w) for x in xs[:2] for w in ws]
            exp = [(c[0],) if shape == "zip1" else (c,) for c in combos]  # a single run sees only its own element
            ins = {"x": list(xs)} if shape == "zip1" else {"x": list(xs[:2]), "w": list(ws)}
            mo = ["x"] if shape == "zip1" else ["x", "w"]
            mode = "zip" if shape == "zip1" else "product"
            for entry in ("map", "node", "node-renamed", "node-nested-1", "node-nested-2"):
                h = H()
                w_ = {"mutable_default_items": True, "runner": runner}
                try:
                    if entry == "map":
                        g = build(inner, h)
                        rows = []
                        for _ in range(2):
                            x = execute(inner, dict(ins), runner=runner, h=h, graph=g, method="map", map_over=mo, map_mode=mode, canon_inputs=False)
                            rows.append([r.values.get("out") for r in x.result] if x.exc is None else repr(x.exc))
                    else:
                        spec = T.gnode("item", inner, map_over=mo, map_mode=mode)
                        ins2 = dict(ins)
                        if entry == "node-renamed":
                            spec["rename_in"] = {"x": "xs"}
                            ins2["xs"] = ins2.pop("x")
                        outer = T.prog([spec])
                        if entry.startswith("node-nested"):
                            # the mapping node sits one / two levels BELOW the graph that is run (plain graph nodes around it)
                            for d in range(int(entry[-1])):
                                outer["name"] = f"lvl{d}"
                                outer = T.prog([T.gnode(f"lvl{d}", outer)])
                        g = build(outer, h)
                        rows = []
                        for _ in range(2):
                            x = execute(outer, dict(ins2), runner=runner, h=h, graph=g, canon_inputs=False)
                            rows.append(list(x.result.values.get("out")) if x.exc is None and x.result is not None else repr(x.exc))
                except Exception as e:  # noqa: BLE001
                    acc.violation({"symptom": "unexpected-exception", "entry": entry, "type": type(e).__name__}, w_, f"mutable default, {shape} via {entry}: {type(e).__name__}: {e}")
                    continue
                acc.evaluations += 2
                acc.key(("mutable-default-items", runner, shape, entry))
                for k, row in enumerate(rows):
                    if row != exp:
                        acc.violation({"symptom": "item-differs-from-single-run", "entry": "map" if entry == "map" else ("node-nested" if entry.startswith("node-nested") else "node"), "cause": "shared-default"}, w_, f"{shape} via {entry} ({runner}), pass {k + 1}: items returned {jsonable(row)}, single runs return {jsonable(exp)} (a mutable signature default is shared between items)")
                        break


def run_shard(shard):
    tier, seed, s, n = shard
    acc = Acc()
    if s == 0:
        derive_after_use(acc)
        mutable_default_items(acc)
    for ci, cfg in enumerate(configs(tier)):
        if ci % n != s:
            continue
        inner, ps, inputs, cs = materialize(cfg)
        for runner in ("sync", "async"):
            ref = single_results(inner, ps, cs, inputs["cfg"] if cfg["bcast"] else False, runner)
            ks = [None] if runner == "sync" else [None, 1, 2]
            for k in ks:
                key = (tuple(sorted((a, repr(b)) for a, b in cfg.items())), runner, k)
                if len(cs) >= 2:
                    acc.key(key)
                stats = {}
                runf = lambda ch: run_cfg(cfg, runner, k, ch)  # noqa: E731
                if runner == "sync":
                    it = [run_once(runf, [])]
                else:
                    it = explore(runf, bound=None if len(cs) <= (4 if tier == "thorough" else 3) else 3, max_execs=3000, stats=stats)
                for ch, x in it:
                    acc.evaluations += 1
                    acc.outcomes[(cfg["kind"], cfg["entry"], cfg["eh"], x.status)] += 1
                    vs = judge(cfg, x, ref)
                    for sig, msg in vs:
                        acc.violation(sig, {"config": cfg, "runner": runner, "k": k, "choices": ch.choices}, msg, size=len(repr(cfg)) + 5 * len(ch.choices))
                if stats.get("cap_hit"):
                    acc.caps.append({"config": cfg, "k": k, "cap": 3000})
                if ci % 500 == 0 and runner == "async" and k is None:
                    acc.sample({"config": cfg, "runner": runner, "combinations": jsonable(cs)})
    return acc


def coverage_extra(acc, tier, seed):
    return {"bounds": {"max_list_len": 2 if tier == "quick" else 3, "mapped_params": 2 if tier == "quick" else 3, "max_combinations": 4 if tier == "quick" else 6, "k": ["None", 1, 2]}}


def replay(rep):
    if rep.get("mutable_default_items"):
        acc = Acc()
        mutable_default_items(acc)
        return [v["message"] for v in acc.violations.values()]
    if rep.get("derive_after_use"):
        acc = Acc()
        derive_after_use(acc)
        return [v["message"] for v in acc.violations.values()]
    cfg = rep["config"]
    inner, ps, inputs, cs = materialize(cfg)
    ref = single_results(inner, ps, cs, inputs["cfg"] if cfg["bcast"] else False, rep["runner"])
    _, x = run_once(lambda ch: run_cfg(cfg, rep["runner"], rep["k"], ch), rep["choices"])
    return [m for _, m in judge(cfg, x, ref)]
