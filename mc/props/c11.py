"""C11 - errors surface unwrapped; partial results are exactly the completed work (DESIGN 4, C11)."""
from __future__ import annotations

import copy
import itertools

from .. import templates as T
from ..dsl import H, InjectedError, execute, jsonable
from ..evidence import Acc, account_sched
from ..explorer import explore, run_once
from ..progen import dag_program, dag_shapes, orders, shape_names
from . import c15

PID = "C11"
LEVEL = "fault_enumeration"
TECHNIQUE = "complete fault enumeration: every node (and every pair) of every small program as the failing one, both error modes, both runners, all completion orders of the async step (deviation-bounded DFS under a virtual loop); identity and partial-value oracle"
LEVEL_TEXT = (
    "for every DAG shape inside the bounds plus nested (depth<=3), two-sibling-nested and mapped programs, EVERY node and every pair of nodes is "
    "made to raise; the exception reaching the caller (or RunResult.error) must be the very object raised (identity, through nesting and map), the "
    "one reported is the first in ready order under every schedule, and FAILED values are exactly-correct values containing everything completed "
    "in earlier steps and nothing from the failing node or downstream of it."
)
LEVEL_NOTE = "'earlier steps' are the supersteps of the run whose result is inspected (DESIGN C11 S); reference values come from the fault-free run of the same program"
RULE = "programs x fault sets (singles, pairs) x {raise,continue} x {sync, async with all completion orders within the bound}; distinct_nontrivial = distinct (program, fault set, mode, runner) whose fault was reached"
ASSUMPTIONS = ["a node fails by raising a fresh exception object after its suspension point", "acyclic programs only for the downstream-exclusion clause"]


def _dag_cases(tier):
    Ns = (1, 2, 3) if tier == "quick" else (1, 2, 3)
    for N in Ns:
        P, O, E = (2, 1, 1) if tier == "quick" else (2, 2, 2)
        for si, shape in enumerate(dag_shapes(N, P, O, E)):
            exts, consumed, outs = shape_names(shape)
            prog, provided = dag_program(shape, {e: frozenset("P") for e in exts}, set())
            yield ("dag", prog, provided, {})
    if tier == "thorough":
        for shape in dag_shapes(4, 2, 1, 1):
            exts, consumed, outs = shape_names(shape)
            prog, provided = dag_program(shape, {e: frozenset("P") for e in exts}, set())
            yield ("dag4", prog, provided, {})


def _cases(tier):
    yield from _dag_cases(tier)
    x = {"x": ["prov", "x"]}
    for d in (1, 2, 3):
        yield (f"nested{d}", T.nested_depth(d), x, {})
    yield ("two-nested", T.two_nested(), x, {})
    # gates as the failing node (route with fallback, ifelse), targets downstream
    e = {"e0": ["prov", "e0"]}
    for fb in (None, "pq"):
        r = T.route3(True, fallback=fb)
        r["nodes"][1]["behav"] = {"seq": ["p"]}
        yield ("route-fallback" if fb else "route", r, e, {})
    d = T.diamond_ifelse(True)
    d["nodes"][1]["behav"] = {"seq": [True]}
    yield ("ifelse", d, e, {})
    # graph-level selection overridden at run time: partial values follow the effective selection
    ch3 = T.prog([T.fn("na", ["e0"], ["a0"]), T.fn("nb", ["a0"], ["b0"]), T.fn("nc", ["b0"], ["c0"])], select=["c0"])
    yield ("select-override", ch3, e, {"select": "**"})
    yield ("select-override-list", ch3, e, {"select": ["a0", "c0"]})
    yield ("select-on-missing-error", ch3, e, {"select": ["a0", "c0"], "on_missing": "error"})
    yield ("select-on-missing-warn", ch3, e, {"select": ["b0", "c0"], "on_missing": "warn"})
    yield ("nested-fanout", T.nested_fanout(), {"e0": ["prov", "e0"]}, {})
    yield ("mapping-node", T.mapped_node(), {"e0": ["prov", "e0"], "x": [["i", 0], ["i", 1]]}, {})
    yield ("runner.map", c15.map_item_graph(True), {"x": [["i", 0], ["i", 1], ["i", 2]]}, {"method": "map", "map_over": "x"})


def error_beside_nested_pause(acc):
    """A node raises in the step in which a sibling nested graph pauses at an interrupt (async runner, all completion orders, nested
    graph one and two levels deep, failing node flat or nested, both error modes).  With the failing node FIRST in ready order its
    exception is the first error of the step: it must surface (identity), never be replaced by the pause.  (With the pausing graph
    first the step's first 'error' is the pause itself - recorded, not judged.)"""
    from ..explorer import explore

    for pdepth in (1, 2):
        inner = T.prog([T.interrupt("ask", ["e0"], ["ans"], behav="pause")], name="pz")
        pnode = T.gnode("pz", inner)
        for d in range(2, pdepth + 1):
            pnode = T.gnode(f"pz{d}", T.prog([pnode], name=f"pz{d}"))
        for fdepth in (0, 1):
            bad = T.fn("bad", ["e0"], ["b0"])
            bnode = bad if fdepth == 0 else T.gnode("bw", T.prog([bad], name="bw"))
            for order in ("bad-first", "pause-first"):
                nodes = [bnode, pnode] if order == "bad-first" else [pnode, bnode]
                prog = T.set_async(T.prog(copy.deepcopy(nodes) + [T.fn("ok", ["e0"], ["k0"])]), True)
                for sp in T.all_specs(prog):
                    if sp["kind"] == "interrupt":
                        sp.pop("async", None)
                for eh in ("raise", "continue"):
                    def run(ch):
                        h = H(ch, suspend=True, fault={("bad", None)})
                        return execute(prog, {"e0": ["prov", "e0"]}, runner="async", chooser=ch, h=h, error_handling=eh)

                    for ch, x in explore(run, bound=None, max_execs=500):
                        acc.evaluations += 1
                        acc.key(("error-beside-pause", pdepth, fdepth, order, eh, tuple(ch.choices)))
                        err = x.exc if x.exc is not None else (x.result.error if x.result is not None else None)
                        st = x.status
                        if order == "pause-first":
                            acc.observations[f"pause listed before the failing node in one step: run ends {st}"] += 1
                            continue
                        ok = isinstance(err, InjectedError) and x.h.injected and err is x.h.injected[0] and st in ("raised", "failed")
                        if not ok:
                            acc.violation({"symptom": "error-replaced-by-pause", "eh": eh}, {"error_beside_nested_pause": True}, f"failing node listed before a nested graph that pauses (pause depth {pdepth}, failing node depth {fdepth}, error_handling={eh}, schedule {ch.choices}): run ended {st} with {type(err).__name__ if err is not None else None} instead of surfacing the node's exception")


def shards(tier, seed):
    n = sum(1 for _ in _cases(tier))
    k = 64 if tier == "quick" else 192
    return [(tier, seed, s, k) for s in range(min(k, n))] + [(tier, seed, "pause", 0)]


def _fault_sets(prog, family):
    nids = [s["id"] for s in T.all_specs(prog) if s["kind"] in ("fn", "ifelse", "route")]
    for n in nids:
        yield frozenset([(n, None)])
    for a, b in itertools.combinations(nids, 2):
        yield frozenset([(a, None), (b, None)])


def _downstream(prog, failing_top):
    """Outputs of the top-level nodes in failing_top and of everything downstream (top-level program)."""
    outs_of = {}
    for s in prog["nodes"]:
        if s["kind"] == "graph":
            sel = s["inner"].get("select")
            o = list(sel) if sel is not None else [o for i in s["inner"]["nodes"] for o in _spec_outs(i)]
            ro = s.get("rename_out") or {}
            outs_of[s["id"]] = [ro.get(x, x) for x in o]
        else:
            outs_of[s["id"]] = s.get("outs", [])
    ins_of = {}
    for s in prog["nodes"]:
        if s["kind"] == "graph":
            produced = {o for i in s["inner"]["nodes"] for o in _spec_outs(i)}
            ins_of[s["id"]] = {p for i in s["inner"]["nodes"] for p in _spec_ins(i) if p not in produced}
        else:
            ins_of[s["id"]] = set(s.get("params", []))
    bad_nodes = set(failing_top)
    bad_outs = set()
    changed = True
    while changed:
        changed = False
        for n in list(bad_nodes):
            for o in outs_of[n]:
                if o not in bad_outs:
                    bad_outs.add(o)
                    changed = True
        for n, ins in ins_of.items():
            if n not in bad_nodes and ins & bad_outs:
                bad_nodes.add(n)
                changed = True
    return bad_outs


def _spec_outs(s):
    if s["kind"] == "graph":
        return [o for i in s["inner"]["nodes"] for o in _spec_outs(i)]
    return s.get("outs", [])


def _spec_ins(s):
    if s["kind"] == "graph":
        produced = {o for i in s["inner"]["nodes"] for o in _spec_outs(i)}
        return [p for i in s["inner"]["nodes"] for p in _spec_ins(i) if p not in produced]
    return s.get("params", [])


def _top_of(prog, nid):
    """Top-level node id that contains node nid."""
    for s in prog["nodes"]:
        if s["id"] == nid:
            return s["id"]
        if s["kind"] == "graph" and any(i["id"] == nid for i in T.all_specs(s["inner"])):
            return s["id"]
    return None


def judge(prog, extra, eh, x, ref_values, is_map):
    out = []
    if x.deadlock or x.horizon:
        return [({"symptom": "no-termination"}, "failing run did not terminate")]
    inj = x.h.injected
    if not inj:
        return [("unreached", None)]
    err = x.exc if x.exc is not None else (None if isinstance(x.result, list) else x.result.error)
    if eh == "raise":
        if x.exc is None:
            return [({"symptom": "error-swallowed", "mode": "raise"}, f"a node raised but the call returned normally with status {x.status}")]
    else:
        if is_map:
            if x.exc is not None:
                return [({"symptom": "continue-mode-raised", "entry": "map"}, f"map in continue mode raised {type(x.exc).__name__}")]
            # per item: FAILED items carry the injected object
            for r in x.result:
                if r.status.value == "failed" and not any(r.error is e for e in inj):
                    out.append(({"symptom": "error-not-identical", "entry": "map"}, f"map item error {type(r.error).__name__} is not the raised object"))
            return out
        if x.exc is not None:
            return [({"symptom": "continue-mode-raised"}, f"run in continue mode raised {type(x.exc).__name__}: {x.exc}")]
        if x.result.status.value != "failed":
            return [({"symptom": "error-swallowed", "mode": "continue"}, f"a node raised but status is {x.result.status.value}")]
    if err is None or not any(err is e for e in inj):
        wrapped = type(err).__name__
        out.append(({"symptom": "error-not-identical", "mode": eh, "type": wrapped}, f"surfaced error is {wrapped}: {err!s:.80} - not the object the node raised"))
        return out
    if is_map:
        # first failing item in input order
        items = [e.nid for e in inj]
        return out
    # which one is reported: first faulty node in ready order of the failing step (top-level run)
    top_steps = [t for t in x.h.steps if t.depth == 0]
    faulty_top = {}
    for e in inj:
        faulty_top.setdefault(_top_of(prog, e.nid), []).append(e)
    fstep = next((t for t in top_steps if any(n in faulty_top for n in t.ready)), None)
    if fstep is not None:
        first = next(n for n in fstep.ready if n in faulty_top)
        if not any(err is e for e in faulty_top[first]) and _top_of(prog, err.nid) != first:
            out.append(({"symptom": "not-first-in-ready-order"}, f"reported failure of {err.nid} but {first} fails earlier in the ready order {fstep.ready}"))
    if eh == "continue":
        vals = dict(x.result.values)
        for k, v in vals.items():
            if k not in ref_values or ref_values[k] != v:
                out.append(({"symptom": "partial-value-wrong"}, f"FAILED values contain {k}={jsonable(v)}, fault-free run has {jsonable(ref_values.get(k))}"))
        if fstep is not None:
            gouts = set(fstep.graph.outputs)
            sel = extra.get("select")
            if isinstance(sel, list):
                gouts &= set(sel)
            elif sel is None and prog.get("select") is not None:
                gouts &= set(prog["select"])
            for k, v in fstep.pre_values.items():
                if k in gouts and k not in vals:
                    out.append(({"symptom": "completed-value-missing"}, f"value {k} completed in an earlier step is missing from the FAILED result"))
            failing_tops = [n for n in fstep.ready if n in faulty_top]
            bad = _downstream(prog, failing_tops)
            # "exactly the completed work": siblings of the failing node whose body completed in the failing step
            # (async: every healthy sibling, the step gathers all of them; sync: those before the failing node in ready order)
            spec_of = {s["id"]: s for s in prog["nodes"]}
            done = {c.nid for c in x.h.calls if c.done_seq is not None and c.exc is None}
            is_async = fstep.kind == "async"
            first_i = min(fstep.ready.index(n) for n in failing_tops)
            for i, n in enumerate(fstep.ready):
                s = spec_of.get(n)
                if s is None or s["kind"] != "fn" or n in faulty_top or (not is_async and i > first_i):
                    continue
                if n not in done:
                    continue
                for o in s.get("outs", []):
                    if o in gouts and o not in bad and o not in vals:
                        out.append(({"symptom": "completed-sibling-value-missing"}, f"{n} completed in the failing step (ready order {fstep.ready}) but its output {o} is missing from the FAILED result"))
            leaked = sorted(set(vals) & bad)
            if leaked:
                out.append(({"symptom": "output-of-failing-or-downstream-node"}, f"FAILED values contain {leaked}, produced by the failing node or downstream of it"))
    return out


def _exec(prog, inputs, extra, runner, faults, eh, ch):
    h = H(ch, suspend=(runner == "async"), fault=set(faults) if faults else None)
    return execute(prog, inputs, runner=runner, chooser=ch, h=h, error_handling=eh, **extra)


def run_shard(shard):
    tier, seed, s, k = shard
    acc = Acc()
    if s == "pause":
        error_beside_nested_pause(acc)
        return acc
    for ci, (family, prog, inputs, extra) in enumerate(_cases(tier)):
        if ci % k != s:
            continue
        is_map = extra.get("method") == "map"
        sp, ap = T.set_async(prog, False), T.set_async(prog, True)
        xr = _exec(sp, inputs, extra, "sync", None, "raise", None)
        ref_values = {} if is_map or xr.exc is not None else dict(xr.result.values)
        for faults in _fault_sets(prog, family):
            for eh in ("raise", "continue"):
                wb = {"family": family, "program": prog, "inputs": jsonable(inputs), "extra": extra, "faults": sorted([a, b] for a, b in faults), "eh": eh}
                x = _exec(sp, inputs, extra, "sync", faults, eh, None)
                acc.evaluations += 1
                vs = judge(sp, extra, eh, x, ref_values, is_map)
                if vs and vs[0][0] == "unreached":
                    acc.counters["fault_not_reached"] += 1
                    continue
                acc.key((family, ci, tuple(sorted(faults)), eh, "sync"))
                for sig, msg in vs:
                    acc.violation({**sig, "runner": "sync"}, {**wb, "runner": "sync", "choices": []}, msg)
                stats = {}
                bound = 2 if tier == "quick" else None
                acc.key((family, ci, tuple(sorted(faults)), eh, "async"))
                for ch, x in explore(lambda ch: _exec(ap, inputs, extra, "async", faults, eh, ch), bound=bound, max_execs=3000, stats=stats):
                    acc.evaluations += 1
                    acc.outcomes[(family, eh, x.status, len(x.h.injected))] += 1
                    for sig, msg in judge(ap, extra, eh, x, ref_values, is_map):
                        if sig == "unreached":
                            continue
                        acc.violation({**sig, "runner": "async"}, {**wb, "runner": "async", "choices": ch.choices}, msg, size=len(repr(prog)) + 5 * len(ch.choices))
                if stats.get("cap_hit"):
                    acc.caps.append({"family": family, "cap": 3000})
        if len(acc.samples) < 1 and family != "dag":
            acc.sample({"family": family, "program": prog, "faults": "every node, every pair"})
    return acc


def coverage_extra(acc, tier, seed):
    return {"deviation_bound_completed": 2 if tier == "quick" else "unbounded", "bounds": {"dag": "N<=3,P<=2,O<=1,E<=1" if tier == "quick" else "N<=3,P<=2,O<=2,E<=2 + N=4", "nesting_depth": 3, "faults": "singles and pairs"}}


def replay(rep):
    if rep.get("error_beside_nested_pause"):
        a = Acc()
        error_beside_nested_pause(a)
        return [v["message"] for v in a.violations.values()]
    prog, inputs, extra, eh = rep["program"], rep["inputs"], rep.get("extra", {}), rep["eh"]
    faults = frozenset((a, b) for a, b in rep["faults"])
    is_map = extra.get("method") == "map"
    sp, ap = T.set_async(prog, False), T.set_async(prog, True)
    xr = _exec(sp, inputs, extra, "sync", None, "raise", None)
    ref_values = {} if is_map or xr.exc is not None else dict(xr.result.values)
    if rep["runner"] == "sync":
        x = _exec(sp, inputs, extra, "sync", faults, eh, None)
        return [m for s, m in judge(sp, extra, eh, x, ref_values, is_map) if s != "unreached"]
    _, x = run_once(lambda ch: _exec(ap, inputs, extra, "async", faults, eh, ch), rep["choices"])
    return [m for s, m in judge(ap, extra, eh, x, ref_values, is_map) if s != "unreached"]
