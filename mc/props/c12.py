"""C12 - events of every terminated run form a complete, well-nested span tree (DESIGN 4, C12)."""
from __future__ import annotations

import copy

from .. import templates as T
from ..dsl import H, InjectedError, execute, jsonable
from ..evidence import Acc, account_sched
from ..explorer import explore, run_once
from ..monitors import ARec, Rec, canon_stream, span_tree_violations
from . import c02, c15

PID = "C12"
LEVEL = "model_checking"
TECHNIQUE = "stateless model checking of event delivery: every terminated execution of the program families (all completion orders of node bodies AND of a suspending async event processor, deviation-bounded) is checked by a span-tree trace monitor"
LEVEL_TEXT = (
    "for every program (DAG shapes, gated, cyclic, nested, mapped node, runner.map, cached-with-hits, failing at each node, rejected calls), "
    "both runners and every completion order within the deviation bound, the stream delivered to a recording processor is checked: one "
    "RunStart/RunEnd per run with the observed status, every NodeStart closed once, interval containment on the span tree, nested runs "
    "parented to the launching node, CacheHit/RouteDecision inside their node, shutdown exactly once and last, nothing for rejected calls."
)
LEVEL_NOTE = "graph-node names equal inner graph names in the alphabet so that 'parented to the launching node' is observable from the stream alone; paused runs are outside the statement"
RULE = (
    "cases = C02 program families x fault sets x error_handling, plus runner.map cases, cached second runs and rejected calls; per case: sync run, "
    "async default schedule, async with suspending bodies (bound 2), async with suspending bodies and suspending async processor (bound 1 quick / 2 thorough). "
    "states = scheduler frontiers; distinct_nontrivial = distinct canonical event streams observed."
)
ASSUMPTIONS = ["delivery time of an event to a processor = entry into on_event / on_event_async", "virtual loop owns the interleaving of node bodies and async processor callbacks"]


def _cases(tier):
    for ci, (family, prog, inputs, ords) in enumerate(c02._cases("quick" if tier == "quick" else "quick")):
        # C12 uses the quick DAG bound in both tiers (the thorough tier deepens schedules instead)
        if family == "dag" and tier == "quick" and ci % 3 != 0:
            continue
        yield (family, prog, inputs, {})
    for name, prog, inputs, extra in c15._cases("quick"):
        if extra.get("method") == "map" or name.startswith("mapnode") or name.startswith("run-of"):
            yield ("map:" + name, prog, inputs, extra)
            if "_fault" not in extra and name not in ("map1",):
                # the bounded worker pool of map / the shared limiter (a different code path from the unlimited gather)
                yield ("map:" + name + "-k2", prog, inputs, {**extra, "max_concurrency": 2})


def shards(tier, seed):
    n = sum(1 for _ in _cases(tier))
    k = 64
    return [(tier, seed, s, k) for s in range(min(k, n))] + [(tier, seed, "special", 0)]


def _faults(prog, family):
    nids = [s["id"] for s in T.all_specs(prog) if s["kind"] == "fn"]
    yield frozenset()
    for n in nids:
        yield frozenset([(n, 0)])
    if family == "loop":
        yield frozenset([("inc", 1)])


def _observed(x):
    """(top_status, run_status, rejected)"""
    if x.exc is not None:
        if isinstance(x.exc, InjectedError) or x.h.calls:
            return "failed", {}, False
        return None, {}, True
    r = x.result
    if isinstance(r, list):
        return "completed", {i.run_id: i.status.value for i in r}, False
    if r.status.value == "paused":
        return None, {}, False
    return r.status.value, {r.run_id: r.status.value}, False


def check_exec(acc, x, recs, w, sync=False):
    if x.deadlock or x.horizon:
        acc.violation({"symptom": "no-termination"}, w, "run did not terminate")
        return
    top, rs, rejected = _observed(x)
    if top is None and not rejected:
        return  # paused: outside the statement
    for r in recs:
        for sym, msg in span_tree_violations(r.log, top_status=top, run_status=rs, rejected=rejected):
            acc.violation({"symptom": sym, "processor": repr(r)}, w, msg, size=len(w.get("choices", ())) * 5 + len(repr(w.get("program"))))
        acc.key(tuple(canon_stream(r.log)))


def _exec(prog, inputs, extra, runner, faults, eh, ch, procs_factory, body_suspend, cache=None):
    h = H(ch, suspend=body_suspend, fault=set(faults) if faults else None)
    procs = procs_factory(h)
    kw = dict(extra)
    if kw.get("method") == "map":
        kw["error_handling"] = eh
    else:
        kw["error_handling"] = eh
    x = execute(prog, inputs, runner=runner, chooser=ch, h=h, event_processors=procs, cache=cache, **kw)
    return x, procs


def run_case(acc, tier, family, prog, inputs, extra, faults, eh):
    wb = {"family": family, "program": prog, "inputs": jsonable(inputs), "extra": extra, "faults": sorted(list(f) for f in faults), "eh": eh}
    sp = T.set_async(prog, False)
    ap = c15._apply_sync(prog) if family.startswith("map:") else T.set_async(prog, True)
    # sync
    x, procs = _exec(sp, inputs, extra, "sync", faults, eh, None, lambda h: [Rec()], False)
    acc.evaluations += 1
    acc.traces += 1
    check_exec(acc, x, procs, {**wb, "mode": "sync", "choices": []})
    # async, default schedule, both processor kinds
    x, procs = _exec(ap, inputs, extra, "async", faults, eh, None, lambda h: [Rec(), ARec(h)], False)
    acc.evaluations += 1
    acc.traces += 1
    check_exec(acc, x, procs, {**wb, "mode": "async-default", "choices": []})
    # async, bodies suspend
    b1 = 2 if tier == "quick" else 3
    for mode, pf, bound in (("async-bodies", lambda h: [ARec(h)], b1), ("async-bodies+processor", lambda h: [ARec(h, suspend=True)], 1 if tier == "quick" else 2)):
        stats = {}

        def run(ch, pf=pf):
            return _exec(ap, inputs, extra, "async", faults, eh, ch, pf, True)

        for ch, (x, procs) in explore(run, bound=bound, max_execs=4000, stats=stats):
            acc.evaluations += 1
            acc.traces += 1
            account_sched(acc, (family, repr(prog), tuple(sorted(faults)), eh, mode), ch)
            check_exec(acc, x, procs, {**wb, "mode": mode, "choices": ch.choices})
            acc.outcomes[(family.split(":")[0], mode, x.status)] += 1
        if stats.get("cap_hit"):
            acc.caps.append({"family": family, "mode": mode, "cap": 4000})


def special(acc, tier):
    """cached-with-hits second runs and rejected calls."""
    from hypergraph.cache import InMemoryCache

    ins = {"e0": ["prov", "e0"]}
    progs = [("diamond", T.diamond_ifelse(True), True), ("route3", T.route3(True), "pq"), ("nested", T.nested_fanout(), None), ("mapped", T.mapped_node(), None)]
    for name, p, dec in progs:
        p = copy.deepcopy(p)
        for s in T.all_specs(p):
            if s["kind"] in ("fn", "ifelse", "route"):
                s["cache"] = True
            if s["kind"] in ("ifelse", "route"):
                s["behav"] = {"seq": [dec]}
        inputs = dict(ins)
        if name == "mapped":
            inputs["x"] = [["i", 0], ["i", 1]]
        for runner in ("sync", "async"):
            cache = InMemoryCache()
            pp = T.set_async(p, runner == "async")
            for round_ in (0, 1):
                x, procs = _exec(pp, inputs, {}, runner, frozenset(), "raise", None, lambda h: [Rec(), ARec(h)] if runner == "async" else [Rec()], False, cache=cache)
                acc.evaluations += 1
                acc.traces += 1
                hits = sum(1 for e in procs[0].log if type(e).__name__ == "CacheHitEvent")
                acc.counters[f"cache_hits[{name},{runner},run{round_}]"] = hits
                check_exec(acc, x, procs, {"family": "cached:" + name, "program": pp, "inputs": inputs, "extra": {}, "faults": [], "eh": "raise", "mode": f"{runner}-cached-run{round_}", "choices": [], "special": "cache"})
    # the cache backend fails: EVERY get and EVERY set of a cached program as the failing backend operation (first and second run)
    class CacheBoom(Exception):
        pass

    class FaultyCache(InMemoryCache):
        def __init__(self, fail=None):
            super().__init__()
            self.fail = fail  # None | ("get"|"set", k)
            self.n = {"get": 0, "set": 0}
            self.hit = 0

        def _op(self, op):
            i = self.n[op]
            self.n[op] += 1
            if self.fail == (op, i):
                self.hit += 1
                raise CacheBoom(f"cache {op} #{i} failed")

        def get(self, key):
            self._op("get")
            return super().get(key)

        def set(self, key, value):
            self._op("set")
            return super().set(key, value)

    for name, p, dec in progs:
        p = copy.deepcopy(p)
        for s in T.all_specs(p):
            if s["kind"] in ("fn", "ifelse", "route"):
                s["cache"] = True
            if s["kind"] in ("ifelse", "route"):
                s["behav"] = {"seq": [dec]}
        inputs = dict(ins)
        if name == "mapped":
            inputs["x"] = [["i", 0], ["i", 1]]
        for runner in ("sync", "async"):
            pp = T.set_async(p, runner == "async")
            pf = (lambda h: [Rec(), ARec(h)]) if runner == "async" else (lambda h: [Rec()])
            for warm in (False, True):
                probe = FaultyCache()
                if warm:
                    _exec(pp, inputs, {}, runner, frozenset(), "raise", None, pf, False, cache=probe)
                    probe.n = {"get": 0, "set": 0}
                _exec(pp, inputs, {}, runner, frozenset(), "raise", None, pf, False, cache=probe)
                counts = dict(probe.n)
                for op in ("get", "set"):
                    for k in range(counts[op]):
                        for eh in ("raise", "continue"):
                            c = FaultyCache()
                            if warm:
                                _exec(pp, inputs, {}, runner, frozenset(), "raise", None, pf, False, cache=c)
                                c.n = {"get": 0, "set": 0}
                            c.fail = (op, k)
                            x, procs = _exec(pp, inputs, {}, runner, frozenset(), eh, None, pf, False, cache=c)
                            acc.evaluations += 1
                            acc.traces += 1
                            if not c.hit:
                                acc.counters["cache_fault_not_reached"] += 1
                                continue
                            acc.counters["cache_backend_faults"] += 1
                            top = "failed" if x.exc is not None else x.result.status.value
                            w = {"family": "cache-fails:" + name, "program": pp, "inputs": inputs, "extra": {}, "faults": [], "eh": eh, "mode": f"{runner}-cache-{op}{k}-{'warm' if warm else 'cold'}", "choices": [], "special": "cache-fails"}
                            for r in procs:
                                for sym, msg in span_tree_violations(r.log, top_status=top):
                                    acc.violation({"symptom": sym, "processor": repr(r), "backend_fault": op}, w, f"cache {op} #{k} raises ({'second' if warm else 'first'} run): " + msg)
                                acc.key(tuple(canon_stream(r.log)))
    # output collection fails after every node succeeded (selected output of the branch not taken, on_missing='error')
    for runner in ("sync", "async"):
        for eh in ("raise", "continue"):
            pp = T.set_async(copy.deepcopy(T.route3(True)), runner == "async")
            pp["nodes"][1]["behav"] = {"seq": ["pq"]}
            x, procs = _exec(pp, ins, {"select": ["x0"], "on_missing": "error"}, runner, frozenset(), eh, None, lambda h: [Rec(), ARec(h)] if runner == "async" else [Rec()], False)
            acc.evaluations += 1
            acc.traces += 1
            acc.counters["output_collection_failures"] += 1 if (x.exc is not None or x.result.status.value == "failed") else 0
            top = "failed"
            for r in procs:
                for sym, msg in span_tree_violations(r.log, top_status=top):
                    acc.violation({"symptom": sym, "processor": repr(r)}, {"family": "collect-fails", "program": pp, "inputs": ins, "extra": {}, "faults": [], "eh": eh, "mode": f"{runner}-collect", "choices": [], "special": "collect"}, msg)
            # the same inside a map item
            xm, procs = _exec(pp, {"e0": [["i", 0], ["i", 1]]}, {"method": "map", "map_over": "e0", "select": ["x0"], "on_missing": "error"}, runner, frozenset(), eh, None, lambda h: [Rec()], False)
            acc.evaluations += 1
            for r in procs:
                rs = {} if xm.exc is not None else {i.run_id: i.status.value for i in xm.result}
                for sym, msg in span_tree_violations(r.log, top_status="failed" if xm.exc is not None else "completed", run_status=rs):
                    acc.violation({"symptom": sym, "processor": repr(r)}, {"family": "collect-fails-map", "program": pp, "inputs": ins, "extra": {}, "faults": [], "eh": eh, "mode": f"{runner}-collect-map", "choices": [], "special": "collect"}, msg)
    # rejected calls: omit the required input
    for name, p, _ in progs:
        for runner in ("sync", "async"):
            pp = T.set_async(copy.deepcopy(p), runner == "async")
            for s in T.all_specs(pp):
                if s["kind"] in ("ifelse", "route"):
                    s["behav"] = {"seq": [True if s["kind"] == "ifelse" else None]}
            x, procs = _exec(pp, {}, {}, runner, frozenset(), "raise", None, lambda h: [Rec(), ARec(h)] if runner == "async" else [Rec()], False)
            acc.evaluations += 1
            check_exec(acc, x, procs, {"family": "rejected:" + name, "program": pp, "inputs": {}, "extra": {}, "faults": [], "eh": "raise", "mode": f"{runner}-rejected", "choices": [], "special": "rejected"})
            acc.counters["rejected_calls"] += 1


def run_shard(shard):
    tier, seed, s, k = shard
    acc = Acc()
    if s == "special":
        special(acc, tier)
        return acc
    for ci, (family, prog, inputs, extra) in enumerate(_cases(tier)):
        if ci % k != s:
            continue
        for faults in _faults(prog, family):
            for eh in ("raise", "continue"):
                if not faults and eh == "continue":
                    continue
                run_case(acc, tier, family, prog, inputs, extra, faults, eh)
        if len(acc.samples) < 1:
            acc.sample({"family": family, "program": prog, "inputs": jsonable(inputs)})
    return acc


def coverage_extra(acc, tier, seed):
    return {"deviation_bound_completed": {"bodies": 2 if tier == "quick" else 3, "bodies+async processor": 1 if tier == "quick" else 2}}


def replay(rep):
    acc = Acc()
    prog, inputs, extra = rep["program"], rep["inputs"], rep.get("extra", {})
    faults = frozenset(tuple(f) for f in rep.get("faults", []))
    mode = rep["mode"]
    if rep.get("special"):
        special(acc, "quick")
    elif mode == "sync":
        x, procs = _exec(T.set_async(prog, False), inputs, extra, "sync", faults, rep["eh"], None, lambda h: [Rec()], False)
        check_exec(acc, x, procs, {"choices": []})
    else:
        ap = c15._apply_sync(prog) if rep["family"].startswith("map:") else T.set_async(prog, True)
        pf = {"async-default": lambda h: [Rec(), ARec(h)], "async-bodies": lambda h: [ARec(h)], "async-bodies+processor": lambda h: [ARec(h, suspend=True)]}[mode]
        _, (x, procs) = run_once(lambda ch: _exec(ap, inputs, extra, "async", faults, rep["eh"], ch, pf, mode != "async-default"), rep["choices"])
        check_exec(acc, x, procs, {"choices": rep["choices"]})
    return [v["message"] for v in acc.violations.values()]
