"""C13 - observers cannot alter execution (DESIGN 4, C13)."""
from __future__ import annotations

import collections
import copy

from .. import templates as T
from ..dsl import H, execute, jsonable
from ..evidence import Acc
from ..monitors import AFailing, ARec, Failing, Rec, UFailing, canon_stream
from . import c15

PID = "C13"
LEVEL = "fault_enumeration"
TECHNIQUE = "complete fault enumeration: a processor failing at EVERY index of every program's event stream (sync and async kind, before and after a healthy recorder), on every event, and at shutdown; differential against the processor-free run"
LEVEL_TEXT = (
    "for a program family that reaches every emission site (run / nested run / runner.map / mapping node / gate / cache hit / failing node / "
    "loop, both runners) the event stream of length E is recorded once and then the run is repeated with a processor raising at index k for "
    "EVERY k<E: status, values, error identity, node invocations must equal the run without processors and the healthy recorder must see the "
    "complete baseline stream and its shutdown."
)
LEVEL_NOTE = "fault points are complete on the default schedule of both runners; in addition every async completion order within the deviation bound (quick 1, thorough 2; capped per program, cap reported) is replayed choice-for-choice with a failing processor at every fault point; streams compared after renaming run/span ids to first-occurrence indices and dropping times"
RULE = "programs x runners x {raise,continue} x fault point k in [0,E) x processor kind x position, plus 'every event' and 'at shutdown'; distinct_nontrivial = distinct (program, runner, fault point) whose processor failure was actually reached"
ASSUMPTIONS = ["processor failures are ordinary Exceptions (the dispatcher's contract); strict dispatch mode is not used by the runners"]


def _programs():
    ins = {"e0": ["prov", "e0"]}
    plain = T.prog([T.fn("na", ["e0"], ["a0"]), T.fn("nb", ["a0"], ["b0", "b1"]), T.fn("nc", ["a0", "b1"], ["c0"])])
    yield ("plain", plain, ins, {}, None)
    yield ("nested", T.nested_fanout(), ins, {}, None)
    yield ("two-nested", T.two_nested(), {"x": ["prov", "x"]}, {}, None)
    yield ("nested-depth2", T.nested_depth(2), {"x": ["prov", "x"]}, {}, None)
    yield ("runner.map", c15.map_item_graph(True), {"x": [["i", 0], ["i", 1], ["i", 2]]}, {"method": "map", "map_over": "x"}, None)
    yield ("mapping-node", T.mapped_node(), {"e0": ["prov", "e0"], "x": [["i", 0], ["i", 1]]}, {}, None)
    d = T.diamond_ifelse(True)
    d["nodes"][1]["behav"] = {"seq": [False]}
    yield ("ifelse", d, ins, {}, None)
    r = T.route3(False)
    r["nodes"][1]["behav"] = {"seq": ["pq"]}
    yield ("route", r, ins, {}, None)
    yield ("loop", T.counter_loop(2, True, "route", True), {"count": 0}, {}, None)
    c = copy.deepcopy(d)
    for s in c["nodes"]:
        s["cache"] = True
    yield ("cached", c, ins, {}, "cache")
    f = T.nested_fanout()
    yield ("failing-nested", f, ins, {}, ("nc", 0))
    yield ("failing-plain", plain, ins, {}, ("nb", 0))
    sh = T.two_gates_shared_target(True, False)
    sh["nodes"][1]["behav"] = {"seq": [False]}
    sh["nodes"][2]["behav"] = {"seq": ["t"]}
    yield ("two-gates-shared-target", sh, ins, {}, None)
    m3 = T.multi_route(False)
    m3["nodes"][1]["behav"] = {"seq": [["p", "r"]]}
    yield ("multi-route", m3, ins, {}, None)
    sigloop = T.prog([T.fn("step", ["count"], ["count"], emit=["turn_done"], behav={"py": "count + 1"}), T.route("gt", ["count"], ["step", "END"], wait_for=["turn_done"], behav={"py": "'step' if count < 2 else END"})])
    yield ("signal-loop", sigloop, {"count": 0}, {}, None)
    yield ("mapping-node-continue-failing-item", T.mapped_node("zip", "continue"), {"e0": ["prov", "e0"], "x": [["i", 0], ["i", 1], ["i", 2]]}, {}, ("mc", 1))
    yield ("failing-gate", r, ins, {}, ("gt", 0))
    cm = copy.deepcopy(T.mapped_node())
    for s_ in T.all_specs(cm):
        if s_["kind"] == "fn":
            s_["cache"] = True
    yield ("cached-mapping-node", cm, {"e0": ["prov", "e0"], "x": [["i", 0], ["i", 0]]}, {}, "cache")
    fm = c15.map_item_graph(True)
    fm = copy.deepcopy(fm)
    fm["nodes"][1]["fail_args"] = {"b0": [["mb", 0, [["x", ["i", 1]]]]]}
    yield ("failing-map-item", fm, {"x": [["i", 0], ["i", 1], ["i", 2]]}, {"method": "map", "map_over": "x"}, None)


def shards(tier, seed):
    n = sum(1 for _ in _programs())
    return [(tier, seed, i) for i in range(n)] + [(tier, seed, ("sched", i)) for i in range(n)]


def _run(prog, inputs, extra, runner, eh, special, procs, ch=None):
    from hypergraph.cache import InMemoryCache

    p = T.set_async(prog, runner == "async")
    fault = None
    cache = None
    if isinstance(special, tuple):
        fault = {special}
    h = H(ch, suspend=ch is not None, fault=fault)
    if special == "cache":
        cache = InMemoryCache()
        hw = H()
        execute(p, inputs, runner=runner, h=hw, cache=cache, **extra)  # warm-up run (not observed)
    x = execute(p, inputs, runner=runner, chooser=ch, h=h, cache=cache, error_handling=eh, event_processors=procs if procs else None, **extra)
    return x


def _obs(x):
    calls = collections.Counter((c.nid, repr(sorted(c.args.items()))) for c in x.h.calls)
    ident = None
    err = x.exc if x.exc is not None else (getattr(x.result, "error", None) if not isinstance(x.result, list) else None)
    if err is not None and x.h.injected:
        ident = any(err is e for e in x.h.injected)
    return (x.view(), calls, ident)


def sched_shard(acc, tier, pi):
    """Every completion order (within the bound) of the async runner: the schedule is explored once with a healthy
    recorder only; then THE SAME choice sequence is replayed with a failing processor at every fault point.  The
    failing processor must not change the run, the schedule (the replay must consume exactly the same choices) or
    the healthy recorder's stream."""
    from ..explorer import explore, run_once

    name, prog, inputs, extra, special = list(_programs())[pi]
    bound = 1 if tier == "quick" else 2
    cap = 40 if tier == "quick" else 400
    for eh in ("raise", "continue"):
        stats = {}
        n_sched = 0
        for ch, (x0, rec0) in explore(lambda ch: (lambda r: (_run(prog, inputs, extra, "async", eh, special, [r], ch), r))(Rec()), bound=bound, max_execs=cap, stats=stats):
            acc.evaluations += 1
            acc.traces += 1
            n_sched += 1
            if x0.deadlock or x0.horizon:
                acc.violation({"symptom": "no-termination"}, {"program": prog, "inputs": jsonable(inputs), "extra": extra, "runner": "async", "eh": eh, "special": jsonable(special), "fault": None, "choices": ch.choices}, "run with a healthy recorder did not terminate")
                continue
            base = _obs(x0)
            S = canon_stream(rec0.log)
            E = sum(1 for e in rec0.log if e != "shutdown")
            pts = [("k", k) for k in range(E)] + [("every", None), ("shutdown", None)]
            for kind_name, cls in (("sync", Failing), ("async", AFailing)):
                for pt in pts:
                    for pos in ("before", "after"):
                        f = cls(k=pt[1]) if pt[0] == "k" else (cls(every=True) if pt[0] == "every" else cls(at_shutdown=True))
                        rec = Rec()
                        procs = [f, rec] if pos == "before" else [rec, f]
                        w = {"program": prog, "inputs": jsonable(inputs), "extra": extra, "runner": "async", "eh": eh, "special": jsonable(special), "fault": [kind_name, list(pt), pos], "choices": ch.choices}
                        try:
                            ch2, x = run_once(lambda c: _run(prog, inputs, extra, "async", eh, special, procs, c), ch.choices)
                        except Exception as e:  # noqa: BLE001  (replay divergence: the failing processor changed the schedule)
                            acc.violation({"symptom": "schedule-altered", "site": pt[0]}, w, f"replaying the schedule with a processor failing at {pt} diverged: {type(e).__name__}: {str(e)[:120]}")
                            continue
                        acc.evaluations += 1
                        if f.raised:
                            acc.key((name, "sched", eh, tuple(ch.choices), kind_name, pt, pos))
                        if len(ch2.choices) != len(ch.choices):
                            acc.violation({"symptom": "schedule-altered", "site": pt[0]}, w, f"a processor failing at {pt} changed the number of scheduling points ({len(ch2.choices)} vs {len(ch.choices)})")
                            continue
                        o = _obs(x)
                        if o != base:
                            what = "status/values/error" if o[0] != base[0] else ("node invocations" if o[1] != base[1] else "error identity")
                            acc.violation({"symptom": "run-altered", "what": what, "site": pt[0], "schedule": "explored"}, w, f"schedule {ch.choices}: processor failing at {pt} ({kind_name}, {pos}) altered the run's {what}", size=len(repr(prog)) + len(ch.choices))
                        if canon_stream(rec.log) != S:
                            acc.violation({"symptom": "healthy-processor-stream-incomplete", "site": pt[0], "pos": pos, "schedule": "explored"}, w, f"schedule {ch.choices}: the healthy processor's stream differs when a sibling fails at {pt} ({pos})", size=len(repr(prog)) + len(ch.choices))
        acc.counters[f"schedules[{name},{eh}]"] = n_sched
        if stats.get("cap_hit"):
            acc.caps.append({"program": name, "schedules_cap": cap})


def run_shard(shard):
    tier, seed, pi = shard
    acc = Acc()
    if isinstance(pi, tuple):
        sched_shard(acc, tier, pi[1])
        return acc
    name, prog, inputs, extra, special = list(_programs())[pi]
    for runner in ("sync", "async"):
        for eh in ("raise", "continue"):
            base0 = _obs(_run(prog, inputs, extra, runner, eh, special, None))
            rec = Rec()
            xb = _run(prog, inputs, extra, runner, eh, special, [rec])
            acc.evaluations += 2
            S = canon_stream(rec.log)
            E = sum(1 for e in rec.log if e != "shutdown")
            if _obs(xb) != base0:
                acc.violation({"symptom": "healthy-processor-changes-run"}, {"program": prog, "inputs": jsonable(inputs), "extra": extra, "runner": runner, "eh": eh, "special": jsonable(special), "fault": None}, "attaching a healthy recorder changed the run")
            acc.counters[f"E[{name},{runner},{eh}]"] = E
            kinds = [("sync", Failing), ("sync-unhashable", UFailing)] + ([("async", AFailing)] if runner == "async" else [])
            points = [("k", k) for k in range(E)] + [("every", None), ("shutdown", None)]
            for kind_name, cls in kinds:
                for pt in points:
                    for pos in ("before", "after"):
                        if pt[0] == "k":
                            f = cls(k=pt[1])
                        elif pt[0] == "every":
                            f = cls(every=True)
                        else:
                            f = cls(at_shutdown=True)
                        rec = Rec() if kind_name.startswith("sync") or pos == "before" else ARec()
                        procs = [f, rec] if pos == "before" else [rec, f]
                        x = _run(prog, inputs, extra, runner, eh, special, procs)
                        acc.evaluations += 1
                        w = {"program": prog, "inputs": jsonable(inputs), "extra": extra, "runner": runner, "eh": eh, "special": jsonable(special), "fault": [kind_name, list(pt), pos]}
                        if f.raised:
                            acc.key((name, runner, eh, kind_name, pt, pos))
                        else:
                            acc.counters["fault_point_not_reached"] += 1
                        acc.outcomes[(name, runner, x.status)] += 1
                        o = _obs(x)
                        if o != base0:
                            what = "status/values/error" if o[0] != base0[0] else ("node invocations" if o[1] != base0[1] else "error identity")
                            acc.violation({"symptom": "run-altered", "what": what, "site": pt[0]}, w, f"processor failing at {pt} ({kind_name}, {pos}) altered the run's {what}: {jsonable(o[0])} vs {jsonable(base0[0])}", size=len(repr(prog)) + (pt[1] or 0))
                        got = canon_stream(rec.log)
                        if got != S:
                            n_ev = sum(1 for e in rec.log if e != "shutdown")
                            sym = "healthy-processor-missed-shutdown" if (got and S and got[:-1] == S[:-1]) or n_ev == E and ("shutdown",) not in got else "healthy-processor-stream-incomplete"
                            acc.violation({"symptom": sym, "site": pt[0], "pos": pos}, w, f"healthy processor received {len(got)} of {len(S)} stream entries when a sibling processor fails at {pt} ({pos})", size=len(repr(prog)) + (pt[1] or 0))
            acc.sample({"program": name, "runner": runner, "eh": eh, "stream_length": E, "fault_points": len(points)}, 2)
    return acc


def replay(rep):
    prog, inputs, extra, runner, eh = rep["program"], rep["inputs"], rep.get("extra", {}), rep["runner"], rep["eh"]
    special = rep.get("special")
    if isinstance(special, list):
        special = tuple(special)
    if rep.get("choices") is not None:
        from ..explorer import run_once

        r0 = Rec()
        _, x0 = run_once(lambda c: _run(prog, inputs, extra, "async", eh, special, [r0], c), rep["choices"])
        if rep["fault"] is None:
            return ["run with a healthy recorder did not terminate"] if (x0.deadlock or x0.horizon) else []
        kind_name, pt, pos = rep["fault"]
        cls = {"sync": Failing}.get(kind_name, AFailing)
        f = cls(k=pt[1]) if pt[0] == "k" else (cls(every=True) if pt[0] == "every" else cls(at_shutdown=True))
        r1 = Rec()
        try:
            c2, x1 = run_once(lambda c: _run(prog, inputs, extra, "async", eh, special, [f, r1] if pos == "before" else [r1, f], c), rep["choices"])
        except Exception as e:  # noqa: BLE001
            return [f"schedule diverged: {e}"]
        msgs = []
        if _obs(x1) != _obs(x0):
            msgs.append("run altered by failing processor (explored schedule)")
        if canon_stream(r1.log) != canon_stream(r0.log):
            msgs.append("healthy processor's stream differs (explored schedule)")
        return msgs
    base0 = _obs(_run(prog, inputs, extra, runner, eh, special, None))
    rec0 = Rec()
    xb = _run(prog, inputs, extra, runner, eh, special, [rec0])
    S = canon_stream(rec0.log)
    msgs = []
    if rep["fault"] is None:
        return ["healthy recorder changed the run"] if _obs(xb) != base0 else []
    kind_name, pt, pos = rep["fault"]
    cls = {"sync": Failing, "sync-unhashable": UFailing}.get(kind_name, AFailing)
    f = cls(k=pt[1]) if pt[0] == "k" else (cls(every=True) if pt[0] == "every" else cls(at_shutdown=True))
    rec = Rec() if kind_name.startswith("sync") or pos == "before" else ARec()
    x = _run(prog, inputs, extra, runner, eh, special, [f, rec] if pos == "before" else [rec, f])
    if _obs(x) != base0:
        msgs.append("run altered by failing processor")
    if canon_stream(rec.log) != S:
        msgs.append("healthy processor did not receive the complete stream")
    return msgs
