"""C14 - interrupts pause before dependants run and resume to the same result (DESIGN 4, C14)."""
from __future__ import annotations

import copy
import itertools

from .. import templates as T
from ..dsl import H, build, canon, jsonable
from ..evidence import Acc, account_sched
from ..explorer import explore, run_once
from ..progen import dag_program, dag_shapes, out_name, shape_names

PID = "C14"
BOTH_CONSTRUCTION_PATHS = True  # every program once with constructor-built and once with decorator-built nodes (mc/dsl.py VIA)
LEVEL = "model_checking"
TECHNIQUE = "exhaustive exploration of pause/answer histories on the real AsyncRunner under a virtual loop: every handler call is an environment choice (answer or pause), every paused run is resumed with the response under the reported key until completion; sibling completion orders within a deviation bound"
LEVEL_TEXT = (
    "for every DAG shape inside the bounds and every placement of 1-2 (thorough: 3) interrupts (single/multi output), plus templates with renamed "
    "inputs, emit and nesting to depth 3, EVERY pause/answer history is executed: each PAUSED result must name the interrupt (path-qualified), show "
    "the value and the response key(s), contain everything computed before and nothing downstream must have run; exactly the dependency-minimal "
    "unanswered interrupt pauses; the final COMPLETED result of every history equals the run in which the handlers return those answers directly."
)
LEVEL_NOTE = "nested interrupts: pause identity only (as the quantifier says); resume of a nested pause is outside the statement's quantifier (DESIGN C14 S); every program on both construction paths; falsy answers; nested response_keys map; cached-interrupt call histories"
RULE = "programs x interrupt placements x all handler answer/pause sequences (env choices, unbounded) x sibling completion orders (sched deviations <= bound); states = scheduler/history frontiers; distinct_nontrivial = distinct (program, placement) with >=1 pausing history"
ASSUMPTIONS = ["responses are opaque tokens ('resp', node, output)", "a history is resumed on the same Graph object with the same inputs plus all responses collected so far"]


def _cases(tier):
    Ns = (1, 2, 3)
    for N in Ns:
        P, O, E = (2, 2, 1)
        for si, shape in enumerate(dag_shapes(N, P, O, E)):
            exts, consumed, outs = shape_names(shape)
            prog, provided = dag_program(shape, {e: frozenset("P") for e in exts}, set())
            cand = [j for j, (_, n_out) in enumerate(shape) if n_out >= 1]
            maxk = 2 if tier == "quick" else 3
            for k in range(1, min(maxk, len(cand)) + 1):
                for sub in itertools.combinations(cand, k):
                    if tier == "quick" and N == 3 and (si + sum(sub)) % 3 != 0:
                        continue
                    p = copy.deepcopy(prog)
                    for j in sub:
                        p["nodes"][j]["kind"] = "interrupt"
                        p["nodes"][j]["behav"] = "env"
                    yield ("dag", p, provided)
    e = {"e0": ["prov", "e0"]}
    # renamed inputs + emit + multi-input
    yield (
        "renamed-emit",
        T.prog(
            [
                T.fn("mk", ["e0"], ["draft"]),
                T.interrupt("ask", ["d", "e0"], ["decision", "note"], rename_in={"d": "draft"}, emit=["asked"], behav="env"),
                T.fn("use", ["decision"], ["final"], wait_for=["asked"]),
                T.fn("side", ["e0"], ["s0"]),
            ]
        ),
        e,
    )
    for i, val in enumerate((0, False, "", [], 0.0)):
        yield (f"falsy-answer-{i}", T.prog([T.interrupt("ask", ["e0"], ["ans"], behav={"const": val}), T.fn("use", ["ans"], ["u0"])]), e)
    yield (
        "multi-output-at-head",
        T.prog([T.interrupt("rev", ["e0"], ["dec", "note"], behav="env"), T.interrupt("one", ["e0"], ["o1"], behav="env"), T.fn("use", ["dec", "note", "o1"], ["u0"])]),
        e,
    )
    yield (
        "chain-of-three",
        T.prog(
            [
                T.interrupt("i1", ["e0"], ["r1"], behav="env"),
                T.interrupt("i2", ["r1"], ["r2"], behav="env"),
                T.interrupt("i3", ["e0"], ["r3"], behav="env"),
                T.fn("fin", ["r2", "r3"], ["f0"]),
            ]
        ),
        e,
    )


def _nested_cases():
    e = {"e0": ["prov", "e0"]}
    for depth in (1, 2, 3):
        for differ in (False, True):
            # differ: the graph node is mounted under a name that differs from the inner graph's own name;
            # the pause path is made of NODE names
            p = T.prog([T.fn("pre", ["e0"], ["a0"]), T.interrupt("ask", ["a0"], ["ans"], behav="pause"), T.fn("post", ["ans"], ["b0"])], name="inner_graph_0" if differ else "g0")
            for d in range(1, depth + 1):
                p = T.prog([T.gnode(f"g{d - 1}", p), T.fn(f"sib{d}", ["e0"], [f"s{d}"])], name=f"inner_graph_{d}" if differ else f"g{d}")
            yield (depth, p, e)


def shards(tier, seed):
    n = sum(1 for _ in _cases(tier))
    k = 64
    return [(tier, seed, s, k) for s in range(min(k, n))] + [(tier, seed, "nested", 0)]


def _desc_outputs(prog, nid):
    """Nodes downstream (by data) of node nid, top-level program."""
    outs = {s["id"]: set(s.get("outs", [])) for s in prog["nodes"]}
    ext = {s["id"]: {(s.get("rename_in") or {}).get(p, p) for p in s.get("params", [])} | set(s.get("wait_for", [])) for s in prog["nodes"]}
    emits = {s["id"]: set(s.get("emit", [])) for s in prog["nodes"]}
    bad_vals = set(outs[nid]) | emits[nid]
    desc = set()
    changed = True
    while changed:
        changed = False
        for s in prog["nodes"]:
            if s["id"] != nid and s["id"] not in desc and ext[s["id"]] & bad_vals:
                desc.add(s["id"])
                bad_vals |= outs[s["id"]] | emits[s["id"]]
                changed = True
    return desc


def _anc(prog, nid):
    return {s["id"] for s in prog["nodes"] if nid in _desc_outputs(prog, s["id"])}


class Overrides(H):
    """Reference harness: interrupts listed in ``over`` answer the recorded response directly."""

    def __init__(self, over):
        super().__init__(None)
        self.over = over

    def compute(self, spec, c):
        if spec["kind"] == "interrupt":
            if spec["id"] in self.over:
                r = self.over[spec["id"]]
                outs = spec["outs"]
                return r[outs[0]] if len(outs) == 1 else dict(r)
        return super().compute(spec, c)


FALSY_RESPONSES = [0, False, "", (), 0.0]


def run_history(prog, inputs, ch, suspend, resp_mode="term"):
    """One complete pause/answer history.  Returns (violations, info).  resp_mode 'falsy': the human's answers are falsy values
    (a different one per output), never None."""
    from hypergraph import AsyncRunner

    from .. import seams
    from ..vloop import Deadlock, Horizon, VLoop

    out = []
    ap = T.set_async(prog, True)
    for s in ap["nodes"]:
        if s["kind"] == "interrupt":
            s.pop("async", None)  # handlers stay synchronous (no suspension point inside a handler)
    h = H(ch, suspend=suspend)
    g = build(ap, h)
    ins = {k: canon(v) for k, v in inputs.items()}
    interrupts = [s for s in prog["nodes"] if s["kind"] == "interrupt"]
    responses = {}  # nid -> {out: value}
    paused_seq = []
    runner = AsyncRunner()
    final = None
    for round_ in range(len(interrupts) + 2):
        loop = VLoop()
        h.loop = loop
        n_before = len(h.calls)
        steps_before = len(h.steps)
        try:
            with seams.use(h):
                res = loop.run_main(runner.run(g, dict(ins), error_handling="continue"), ch)
        except (Deadlock, Horizon):
            return [({"symptom": "no-termination"}, "run did not terminate")], None
        except Exception as e:  # noqa: BLE001 - the call itself was rejected
            out.append(({"symptom": "run-rejected", "type": type(e).__name__, "resume": bool(paused_seq)}, f"history {paused_seq}: run with the responses supplied was rejected: {type(e).__name__}: {str(e)[:160]}"))
            return out, None
        finally:
            loop.close()
        calls = h.calls[n_before:]
        st = res.status.value
        if st == "failed":
            out.append(({"symptom": "run-failed", "type": type(res.error).__name__}, f"history {paused_seq}: run failed with {type(res.error).__name__}: {res.error}"))
            return out, None
        if st == "completed":
            final = res
            break
        # PAUSED
        pz = res.pause
        spec = next((s for s in interrupts if s["id"] == pz.node_name), None)
        if spec is None:
            out.append(({"symptom": "pause-names-unknown-node"}, f"paused at {pz.node_name!r}, not an interrupt of the program"))
            return out, None
        nid = spec["id"]
        icalls = [c for c in calls if c.nid == nid]
        if not icalls or icalls[-1].ret is not None:
            out.append(({"symptom": "pause-names-wrong-interrupt"}, f"paused at {nid} but its handler did not return None in this run"))
        pausing = [c for c in calls if c.kind == "interrupt" and c.ret is None and c.exc is None]
        if len(pausing) != 1:
            out.append(({"symptom": "not-one-pause-per-run"}, f"{len(pausing)} handlers returned None in one run"))
        rn = spec.get("rename_in") or {}
        params = spec["params"]
        if icalls:
            a = icalls[-1].args
            first = a[params[0]] if params else None
            if pz.value != first:
                out.append(({"symptom": "pause-value"}, f"pause.value={jsonable(pz.value)} but the handler was shown {jsonable(first)}"))
            if len(params) > 1:
                exp = {rn.get(p, p): a[p] for p in params}
                if pz.values != exp:
                    out.append(({"symptom": "pause-values"}, f"pause.values={jsonable(pz.values)} expected {jsonable(exp)}"))
        keys = pz.response_keys
        if set(keys) != set(spec["outs"]) or any(keys[o] != o for o in keys) or pz.response_key != spec["outs"][0]:
            out.append(({"symptom": "response-keys"}, f"response keys {keys} / {pz.response_key} for outputs {spec['outs']}"))
        desc = _desc_outputs(prog, nid)
        ran_desc = sorted({c.nid for c in calls if c.nid in desc})
        if ran_desc:
            out.append(({"symptom": "dependant-ran-before-answer"}, f"paused at {nid} but dependants {ran_desc} already ran in this run"))
        # dependency order: every interrupt ancestor has completed in this run (answered or resumed)
        for anc in _anc(prog, nid):
            aspec = next((s for s in interrupts if s["id"] == anc), None)
            if aspec is not None and anc not in responses and not any(c.nid == anc and c.ret is not None for c in calls):
                out.append(({"symptom": "pause-not-in-dependency-order"}, f"paused at {nid} although its ancestor interrupt {anc} is unanswered"))
        # values computed before the pause are returned
        steps = [t for t in h.steps[steps_before:] if t.depth == 0]
        pstep = next((t for t in steps if nid in t.ready), None)
        if pstep is not None:
            gouts = set(g.outputs)
            from hypergraph.nodes.base import _EMIT_SENTINEL

            for k, v in pstep.pre_values.items():
                if k in gouts and v is not _EMIT_SENTINEL and (k not in res.values or res.values[k] != v):
                    out.append(({"symptom": "value-before-pause-missing"}, f"{k} was computed before the pause at {nid} but is not in the PAUSED result"))
        bad_vals = set()
        for d in desc | {nid}:
            bad_vals |= set(next(s for s in prog["nodes"] if s["id"] == d).get("outs", []))
        leaked = sorted(k for k in res.values if k in bad_vals and k not in ins)
        if leaked:
            out.append(({"symptom": "downstream-value-in-paused-result"}, f"PAUSED result contains {leaked}"))
        if nid in responses:
            out.append(({"symptom": "answered-interrupt-paused-again"}, f"{nid} paused again although its response was supplied"))
            return out, None
        if resp_mode == "falsy":
            base = len(paused_seq)
            responses[nid] = {o: FALSY_RESPONSES[(base + i) % len(FALSY_RESPONSES)] for i, o in enumerate(spec["outs"])}
        else:
            responses[nid] = {o: ("resp", nid, o) for o in spec["outs"]}
        for o, key in keys.items():
            ins[key] = responses[nid].get(o)
        paused_seq.append(nid)
    if final is None:
        out.append(({"symptom": "history-does-not-complete"}, f"history {paused_seq} did not reach COMPLETED"))
        return out, None
    # reference: handlers return those answers directly
    h2 = Overrides(responses)
    sp = T.set_async(prog, True)
    for s in sp["nodes"]:
        if s["kind"] == "interrupt":
            s.pop("async", None)
    g2 = build(sp, h2)
    loop = VLoop()
    h2.loop = loop
    try:
        with seams.use(h2):
            ref = loop.run_main(runner.run(g2, {k: canon(v) for k, v in inputs.items()}, error_handling="continue"), _Z())
    finally:
        loop.close()
    if ref.status.value != "completed" or dict(ref.values) != dict(final.values):
        diff = sorted(k for k in set(ref.values) | set(final.values) if ref.values.get(k) != final.values.get(k))
        out.append(({"symptom": "resume-differs-from-direct-answer"}, f"history {paused_seq}: final values differ from the run where handlers answer directly on {diff}: {jsonable({k: final.values.get(k) for k in diff[:2]})} vs {jsonable({k: ref.values.get(k) for k in diff[:2]})}"))
    else:
        last = {}
        for c in h.calls[n_before:]:  # the final (completed) run only
            if c.kind == "fn":
                last[c.nid] = c.args
        last2 = {}
        for c in h2.calls:
            last2[c.nid] = c.args
        for nid in paused_seq:
            for d in _desc_outputs(prog, nid):
                if d in last2 and h2.specs[d]["kind"] == "fn" and last.get(d) != last2[d]:
                    out.append(({"symptom": "downstream-arguments-differ"}, f"node {d} downstream of {nid} received {jsonable(last.get(d))} instead of {jsonable(last2[d])}"))
    return out, paused_seq


class _Z:
    def choose(self, kind, label, n):
        return 0


def same_runner_two_graphs(acc):
    """One AsyncRunner serves graph A, then graph B whose interrupt has the same node name but other outputs."""
    from hypergraph import AsyncRunner

    from .. import seams
    from ..vloop import VLoop

    runner = AsyncRunner()
    e = {"e0": ("prov", "e0")}
    progA = T.prog([T.interrupt("ask", ["e0"], ["decision"], behav="pause"), T.fn("useA", ["decision"], ["ua"])])
    progB = T.prog([T.interrupt("ask", ["e0"], ["decision"], behav="pause", rename_out={"decision": "verdict"}, fname="ask_b", shared_ok=True), T.fn("useB", ["verdict"], ["ub"])])
    out = []
    for label, prog, outname in (("A", progA, "decision"), ("B", progB, "verdict")):
        h = H()
        spec_prog = T.set_async(prog, True)
        for s in spec_prog["nodes"]:
            if s["kind"] == "interrupt":
                s.pop("async", None)
        g = build(spec_prog, h)
        for round_, ins in enumerate((dict(e), {**e, outname: ("resp", outname)})):
            loop = VLoop()
            h.loop = loop
            try:
                with seams.use(h):
                    res = loop.run_main(runner.run(g, ins, error_handling="continue"), _Z())
            except Exception as ex:  # noqa: BLE001
                out.append(("run-rejected", f"graph {label} round {round_}: {type(ex).__name__}: {str(ex)[:120]}"))
                break
            finally:
                loop.close()
            acc.evaluations += 1
            if round_ == 0:
                if res.status.value != "paused" or res.pause.output_param != outname or res.pause.response_key != outname:
                    out.append(("response-keys", f"graph {label} on a runner that served another graph before: pause reports {res.status.value} / {getattr(res.pause, 'response_key', None)!r}, expected key {outname!r}"))
                    break
            elif res.status.value != "completed" or ("ua" if label == "A" else "ub") not in res.values:
                out.append(("history-does-not-complete", f"graph {label}: resuming under {outname!r} gave {res.status.value} {jsonable(res.values)}"))
    acc.key(("same-runner-two-graphs",))
    for sym, msg in out:
        acc.violation({"symptom": sym, "history": "one-runner-two-graphs"}, {"same_runner": True}, msg)


def paused_with_selection(acc):
    """'values computed before the pause are returned' whatever the selection policy: a pausing run with a run-time select naming
    an output that cannot exist yet (downstream of the interrupt) and every on_missing mode still ends PAUSED, identifies the
    interrupt, and returns the selected values computed so far."""
    from hypergraph import AsyncRunner

    from .. import seams
    from ..vloop import VLoop

    prog = T.prog([T.fn("pre", ["e0"], ["a0"]), T.interrupt("ask", ["a0"], ["ans"], behav="pause"), T.fn("post", ["ans"], ["b0"])])
    ap = T.set_async(prog, True)
    for s_ in ap["nodes"]:
        if s_["kind"] == "interrupt":
            s_.pop("async", None)
    for sel in (["b0"], ["a0", "b0"], ["a0"], "**"):
        for om in ("ignore", "warn", "error"):
            h = H()
            g = build(ap, h)
            loop = VLoop()
            h.loop = loop
            w = {"paused_with_selection": True}
            try:
                with seams.use(h):
                    res = loop.run_main(AsyncRunner().run(g, {"e0": ("prov", "e0")}, select=sel, on_missing=om), _Z())
            except Exception as e:  # noqa: BLE001
                acc.violation({"symptom": "pausing-run-raised", "on_missing": om}, w, f"pausing run with select={sel}, on_missing={om!r} raised {type(e).__name__}: {str(e)[:120]} instead of returning PAUSED")
                continue
            finally:
                loop.close()
            acc.evaluations += 1
            acc.key(("paused-with-selection", repr(sel), om))
            exp_keys = {"a0"} if sel == "**" or "a0" in sel else set()
            if res.status.value != "paused" or res.pause is None or res.pause.node_name != "ask" or set(res.values) != exp_keys:
                acc.violation({"symptom": "paused-result-with-selection", "on_missing": om}, w, f"pausing run with select={sel}, on_missing={om!r}: status {res.status.value}, pause {getattr(res.pause, 'node_name', None)!r}, values {sorted(res.values)} (expected PAUSED at 'ask' with values {sorted(exp_keys)})")


def cached_interrupt_histories(acc, depth=3):
    """cache=True on the interrupt itself: EVERY sequence of <= depth calls (no response / response A / response B) on one
    runner with one cache, for a handler that always pauses and one that always answers, must give at every position the
    result of the same call on a runner without a cache (a supplied response is what the run uses; no response and a
    pausing handler means PAUSED)."""
    import tempfile

    from hypergraph import AsyncRunner
    from hypergraph.cache import DiskCache, InMemoryCache

    from .. import seams
    from ..vloop import VLoop

    e = {"e0": ("prov", "e0")}
    calls = [("none", {}), ("A", {"decision": ("resp", "A")}), ("B", {"decision": ("resp", "B")})]
    for mode in ("pause", "answer"):
        for emit in (False, True):
            kw = {"emit": ["asked"]} if emit else {}
            prog = T.prog([T.fn("mk", ["e0"], ["draft"]), T.interrupt("ask", ["draft"], ["decision"], behav=mode, cache=True, **kw), T.fn("use", ["decision"], ["final"], **({"wait_for": ["asked"]} if emit else {}))])
            ap = T.set_async(prog, True)
            for s_ in ap["nodes"]:
                if s_["kind"] == "interrupt":
                    s_.pop("async", None)
            for backend in ("mem", "disk"):
                for d in range(1, depth + 1):
                    for hist in itertools.product(calls, repeat=d):
                        tmp = tempfile.mkdtemp(prefix="c14_", dir="/dev/shm") if backend == "disk" else None
                        try:
                            cache = InMemoryCache() if backend == "mem" else DiskCache(tmp)
                            views = []
                            for runner in (AsyncRunner(cache=cache), AsyncRunner()):
                                h = H()
                                g = build(ap, h)
                                row = []
                                for label, extra in hist:
                                    loop = VLoop()
                                    h.loop = loop
                                    try:
                                        with seams.use(h):
                                            res = loop.run_main(runner.run(g, {**e, **extra}, error_handling="continue"), _Z())
                                        row.append((res.status.value, tuple(sorted((k, repr(v)) for k, v in res.values.items()))))
                                    except Exception as ex:  # noqa: BLE001
                                        row.append(("raised", type(ex).__name__))
                                    finally:
                                        loop.close()
                                    acc.evaluations += 1
                                views.append(row)
                        finally:
                            if tmp:
                                import shutil

                                shutil.rmtree(tmp, ignore_errors=True)
                        acc.key(("cached-interrupt", mode, emit, backend, tuple(l for l, _ in hist)))
                        for pos, (a, b) in enumerate(zip(*views)):
                            if a != b:
                                what = "supplied-response-overridden" if hist[pos][0] != "none" else "pause-skipped-or-stale-answer"
                                acc.violation(
                                    {"symptom": "cached-interrupt-differs-from-uncached", "what": what, "handler": mode},
                                    {"cached_interrupt": True},
                                    f"interrupt with cache=True ({backend}, handler always {mode}s), calls {[l for l, _ in hist]}: call #{pos + 1} gives {jsonable(a)} but without a cache {jsonable(b)}",
                                    size=d,
                                )
                                break


def nested_check(acc):
    from hypergraph import AsyncRunner

    from .. import seams
    from ..vloop import VLoop

    for depth, prog, inputs in _nested_cases():
        h = H()
        g = build(T.set_async(prog, True), h)
        loop = VLoop()
        h.loop = loop
        try:
            with seams.use(h):
                res = loop.run_main(AsyncRunner().run(g, {k: canon(v) for k, v in inputs.items()}), _Z())
        finally:
            loop.close()
        acc.evaluations += 1
        acc.traces += 1
        acc.key(("nested", depth))
        path = "/".join([f"g{d}" for d in range(depth - 1, -1, -1)] + ["ask"])
        dotted = ".".join([f"g{d}" for d in range(depth - 1, -1, -1)] + ["ans"])
        w = {"nested_depth": depth, "program": prog}
        acc.key(("nested", depth, prog.get("name")))
        if res.status.value != "paused":
            acc.violation({"symptom": "nested-pause-status"}, w, f"depth {depth}: status {res.status.value}")
            continue
        if res.pause.node_name != path or res.pause.response_key != dotted or res.pause.output_param != "ans":
            acc.violation({"symptom": "nested-pause-identity"}, w, f"depth {depth}: pause {res.pause.node_name!r}/{res.pause.response_key!r} expected {path!r}/{dotted!r}")
        if dict(res.pause.response_keys) != {"ans": dotted}:
            acc.violation({"symptom": "nested-pause-identity", "what": "response_keys"}, w, f"depth {depth}: pause.response_keys = {dict(res.pause.response_keys)!r}, expected {{'ans': {dotted!r}}} (the key map of all outputs must agree with response_key and the node path)")
        shown = next((c.args for c in h.calls if c.nid == "ask"), None)
        if shown is None or res.pause.value != shown["a0"]:
            acc.violation({"symptom": "nested-pause-value"}, w, f"depth {depth}: pause.value does not equal the value shown to the handler")
        if any(c.nid == "post" for c in h.calls):
            acc.violation({"symptom": "dependant-ran-before-answer"}, w, f"depth {depth}: node depending on the nested interrupt ran")


def run_shard(shard):
    tier, seed, s, k = shard
    acc = Acc()
    if s == "nested":
        nested_check(acc)
        same_runner_two_graphs(acc)
        cached_interrupt_histories(acc, 3 if tier == "quick" else 4)
        paused_with_selection(acc)
        return acc
    for ci, (family, prog, inputs) in enumerate(_cases(tier)):
        if ci % k != s:
            continue
        paused_any = False
        for suspend, bound, rmode in ((False, None, "term"), (True, 1 if tier == "quick" else 2, "term"), (False, None, "falsy")):
            stats = {}
            for ch, (vs, seq) in explore(lambda ch: run_history(prog, inputs, ch, suspend, rmode), bound=bound, max_execs=4000, stats=stats, free_kinds=("env",)):
                acc.evaluations += 1
                acc.traces += 1
                account_sched(acc, (family, ci, suspend, rmode), ch)
                acc.outcomes[(family, tuple(seq) if seq is not None else None)] += 1
                if seq:
                    paused_any = True
                for sig, msg in vs:
                    acc.violation({**sig, **({"responses": "falsy"} if rmode == "falsy" else {})}, {"family": family, "program": prog, "inputs": jsonable(inputs), "suspend": suspend, "choices": ch.choices, "resp_mode": rmode}, msg if rmode == "term" else f"[answers are falsy values] {msg}", size=len(repr(prog)) + 5 * len(ch.choices))
            if stats.get("cap_hit"):
                acc.caps.append({"family": family, "case": ci, "cap": 4000})
        if paused_any:
            acc.key((family, ci))
        if family != "dag" or ci % 97 == 0:
            acc.sample({"family": family, "program": prog}, 2)
    return acc


def coverage_extra(acc, tier, seed):
    return {"bounds": {"dag": "N<=3,P<=2,O<=2,E<=1", "interrupts": 2 if tier == "quick" else 3, "nested_depth": 3}, "deviation_bound_completed": {"env": "unbounded", "sched": 1 if tier == "quick" else 2}}


def replay(rep):
    if rep.get("paused_with_selection"):
        acc = Acc()
        paused_with_selection(acc)
        return [v["message"] for v in acc.violations.values()]
    if rep.get("cached_interrupt"):
        acc = Acc()
        cached_interrupt_histories(acc)
        return [v["message"] for v in acc.violations.values()]
    if rep.get("same_runner"):
        acc = Acc()
        same_runner_two_graphs(acc)
        return [v["message"] for v in acc.violations.values()]
    if "nested_depth" in rep:
        acc = Acc()
        nested_check(acc)
        return [v["message"] for v in acc.violations.values()]
    _, (vs, seq) = run_once(lambda ch: run_history(rep["program"], rep["inputs"], ch, rep["suspend"], rep.get("resp_mode", "term")), rep["choices"])
    return [m for _, m in vs]
