"""C15 - max_concurrency is a global bound and never deadlocks (DESIGN 4, C15)."""
from __future__ import annotations

from .. import templates as T
from ..dsl import H, execute, jsonable
from ..evidence import Acc, account_sched
from ..explorer import explore, run_once

PID = "C15"
LEVEL = "model_checking"
TECHNIQUE = "stateless model checking under a virtual event loop: every completion order of suspended node bodies for every nesting/mapping shape and limit k, with an in-flight monitor and deadlock/livelock detection"
LEVEL_TEXT = (
    "for each shape (fan-out, nesting to depth 3, runner.map, map_over node, map of a mapping graph, sync/async mixtures) and each k, ALL "
    "completion orders of the suspended bodies are executed on the real AsyncRunner; at every instant the number of function-node bodies "
    "entered and not left is compared with k, 'no enabled body while the run is unfinished' is reported as deadlock, and the result is "
    "compared with the unlimited run. Exhaustive for <=6 (quick <=4..5) bodies; larger shapes are not explored."
)
LEVEL_NOTE = "counts bodies of function nodes (sync, async, generator); gates/interrupt handlers take no permit on the pinned tree and are not counted (DESIGN C15 S)"
RULE = (
    "shapes x k in {None,1,2,3} x all completion orders (unbounded DFS over 'sched' points, cap reported); states = distinct scheduler "
    "frontiers (case, released multiset, pending set); distinct_nontrivial = (shape, k) pairs with >=2 bodies"
)
ASSUMPTIONS = [
    "one suspension point per async body, placed after the permit is taken (inside the function)",
    "virtual loop: FIFO callbacks; the only nondeterminism is which parked body completes next",
]


def fanout(F, mixed=False, gen=False):
    nodes = [T.fn(f"f{i}", ["e0"], [f"x{i}"], **({} if not (mixed and i == 0) else {"sync": True}), **({"gen": True} if gen and i % 2 == 0 else {})) for i in range(F)]
    nodes.append(T.fn("join", [f"x{i}" for i in range(F)], ["j0"]))
    return T.prog(nodes)


def nested(depth, F=2):
    p = T.prog([T.fn(f"l0_{i}", ["e0"], [f"y0_{i}"]) for i in range(F)], name="g0")
    for d in range(1, depth + 1):
        p = T.prog([T.gnode(f"g{d - 1}", p), T.fn(f"s{d}", ["e0"], [f"y{d}"])], name=f"g{d}")
    return p


def map_item_graph(two=False):
    nodes = [T.fn("mb", ["x"], ["b0"])]
    if two:
        nodes.append(T.fn("mc", ["b0"], ["c0"]))
    return T.prog(nodes, name="item")


def map_in_map():
    inner = T.prog([T.fn("ib", ["y"], ["b0"])], name="inner")
    mid = T.prog([T.gnode("inner", inner, map_over=["y"]), T.fn("mz", ["x"], ["z0"])], name="mid")
    return mid


def _apply_sync(prog):
    """set_async on everything except nodes flagged sync."""
    p = T.set_async(prog, True)
    for s in T.all_specs(p):
        if s.get("sync"):
            s.pop("async", None)
    return p


def _cases(tier):
    e = {"e0": ["prov", "e0"]}
    Fs = (2, 3) if tier == "quick" else (2, 3, 4, 5)
    for F in Fs:
        yield (f"fanout{F}", fanout(F), e, {})
        yield (f"fanout{F}-mixed", fanout(F, True), e, {})
        yield (f"fanout{F}-generators", fanout(F, False, True), e, {})
    for d in (1, 2) if tier == "quick" else (1, 2, 3):
        yield (f"nested{d}", nested(d), e, {})
    if tier == "thorough":
        yield ("nested2-F3", nested(2, 3), e, {})
    for n in (1, 2, 3) if tier == "quick" else (1, 2, 3, 4):
        items = [["i", j] for j in range(n)]
        yield (f"map{n}", map_item_graph(False), {"x": items}, {"method": "map", "map_over": "x"})
        if n <= 3:
            yield (f"map{n}-2node", map_item_graph(True), {"x": items}, {"method": "map", "map_over": "x"})
    for n in (2, 3):
        p = T.prog([T.gnode("item", map_item_graph(False), map_over=["x"]), T.fn("sib", ["e0"], ["s0"])])
        yield (f"mapnode{n}", p, {"x": [["i", j] for j in range(n)], "e0": ["prov", "e0"]}, {})
    yield ("map-in-map", map_in_map(), {"x": [["i", 0], ["i", 1]], "y": [["j", 0], ["j", 1]]}, {"method": "map", "map_over": "x"})
    yield ("run-of-map-in-map", T.prog([T.gnode("mid", map_in_map(), map_over=["x"])]), {"x": [["i", 0], ["i", 1]], "y": [["j", 0], ["j", 1]]}, {})
    # a body raising while its siblings wait for / hold permits: the permit must come back on the error path
    for F in (3,) if tier == "quick" else (3, 4):
        for eh in ("continue", "raise"):
            yield (f"fanout{F}-f1-fails-{eh}", fanout(F), e, {"_fault": [["f1", 0]], "error_handling": eh})
            yield (f"fanout{F}-generators-f0-fails-{eh}", fanout(F, False, True), e, {"_fault": [["f0", 0]], "error_handling": eh})
    yield ("nested2-inner-fails", nested(2), e, {"_fault": [["l0_0", 0]], "error_handling": "continue"})
    yield ("nested2-inner-and-outer-fail", nested(2), e, {"_fault": [["l0_1", 0], ["s2", 0]], "error_handling": "continue"})
    items3 = [["i", j] for j in range(3)]
    yield ("map3-2node-item-fails", map_item_graph(True), {"x": items3}, {"method": "map", "map_over": "x", "_fault": [["mb", 1]], "error_handling": "continue"})
    pm = T.prog([T.gnode("item", map_item_graph(False), map_over=["x"]), T.fn("sib", ["e0"], ["s0"])])
    yield ("mapnode3-item-fails", pm, {"x": items3, "e0": ["prov", "e0"]}, {"_fault": [["mb", 1]], "error_handling": "continue"})


KS = [None, 1, 2, 3]
HIST = [("fail", 3, 1), ("fail", 3, 2), ("pause", 3, 1), ("ok", 3, 1), ("fail-raise", 2, 1)]


def shards(tier, seed):
    return [(tier, seed, i, k) for i, _ in enumerate(_cases(tier)) for k in KS] + [(tier, seed, "hist", i) for i in range(len(HIST))]


def history_case(acc, first, k1, k2, tier):
    """Two top-level calls awaited one after the other in ONE task (one context): the limit of the first call
    (which fails / pauses / completes) must not survive into the second."""
    from hypergraph import AsyncRunner

    from .. import seams
    from ..dsl import build, canon
    from ..vloop import Deadlock, Horizon, VLoop

    F = 3
    nodes = [T.fn(f"f{i}", ["e0"], [f"x{i}"]) for i in range(F)]
    if first == "pause":
        nodes.append(T.interrupt("ask", ["x0"], ["ans"], behav="pause"))
    prog = T.set_async(T.prog(nodes), True)
    for sp in prog["nodes"]:
        if sp["kind"] == "interrupt":
            sp.pop("async", None)
    ins = {"e0": ("prov", "e0")}

    def run(ch):
        h = H(ch, suspend=True)
        g = build(prog, h)
        loop = VLoop()
        h.loop = loop
        runner = AsyncRunner()
        marks = {}

        async def main():
            if first.startswith("fail"):
                h.fault = {("f1", 0)}
            try:
                await runner.run(g, dict(ins), max_concurrency=k1, error_handling="raise" if first == "fail-raise" else "continue")
            except Exception:  # noqa: BLE001 - the first call's own fate is not what is judged here
                pass
            h.fault = None
            marks["peak1"] = h.inflight_peak
            h.inflight_peak = 0
            r2 = await runner.run(g, dict(ins), max_concurrency=k2, error_handling="continue")
            marks["peak2"] = h.inflight_peak
            return r2

        try:
            with seams.use(h):
                r2 = loop.run_main(main(), ch, budget=400000)
        except (Deadlock, Horizon) as e:
            return None, marks, type(e).__name__
        finally:
            loop.close()
        return r2, marks, None

    stats = {}
    for ch, (r2, marks, stuck) in explore(run, bound=None, max_execs=20000, stats=stats):
        acc.evaluations += 1
        acc.traces += 1
        account_sched(acc, ("hist", first, k1, k2), ch)
        w = {"history": [first, k1, k2], "choices": ch.choices}
        if stuck:
            acc.violation({"symptom": "deadlock" if stuck == "Deadlock" else "horizon", "history": first}, w, f"second call after a {first} call did not terminate ({stuck})")
            continue
        acc.outcomes[("hist", first, k1, k2, marks.get("peak2"))] += 1
        if marks.get("peak2", 0) > k2:
            acc.violation({"symptom": "in-flight-exceeds-limit", "history": "second-call-after-" + first}, w, f"after a first call with max_concurrency={k1} that {first}s, a second call with max_concurrency={k2} had {marks['peak2']} node functions executing at once", size=len(ch.choices))
    acc.key(("hist", first, k1, k2))
    if stats.get("cap_hit"):
        acc.caps.append({"history": [first, k1, k2], "cap": 20000})


def _run(prog, inputs, extra, k, ch):
    extra = dict(extra)
    fault = extra.pop("_fault", None)
    h = H(ch, suspend=True, fault={(n, i) for n, i in fault} if fault else None)
    x = execute(prog, inputs, runner="async", chooser=ch, h=h, max_concurrency=k, budget=400000, **extra)
    return x


def judge(x, k, ref_view):
    out = []
    if x.deadlock:
        return [({"symptom": "deadlock"}, "run did not finish and no body is enabled (deadlock)")]
    if x.horizon:
        return [({"symptom": "horizon"}, "run exceeded the step horizon (livelock)")]
    if k is not None and x.h.inflight_peak > k:
        out.append(({"symptom": "in-flight-exceeds-limit"}, f"{x.h.inflight_peak} node functions executing at once with max_concurrency={k}"))
    if ref_view is not None and x.view() != ref_view:
        out.append(({"symptom": "result-differs-from-unlimited"}, f"result with max_concurrency={k} differs from the unlimited run: {jsonable(x.view())[:2]} vs {jsonable(ref_view)[:2]}"))
    return out


def run_shard(shard):
    tier, seed, ci, k = shard
    acc = Acc()
    if ci == "hist":
        history_case(acc, *HIST[k], tier)
        return acc
    name, prog, inputs, extra = list(_cases(tier))[ci]
    ap = _apply_sync(prog)
    ch0, x0 = run_once(lambda ch: _run(ap, inputs, extra, None, ch), [])
    ref = x0.view()
    nbodies = sum(1 for c in x0.h.calls if c.kind == "fn")
    if nbodies >= 2:
        acc.key((name, k))
    stats = {}
    peaks = set()
    cap = 20000 if tier == "quick" else 400000
    for ch, x in explore(lambda ch: _run(ap, inputs, extra, k, ch), bound=None, max_execs=cap, stats=stats):
        acc.evaluations += 1
        acc.traces += 1
        account_sched(acc, (name, k), ch)
        peaks.add(x.h.inflight_peak)
        acc.outcomes[(name, k, x.status, x.h.inflight_peak)] += 1
        for sig, msg in judge(x, k, ref):
            acc.violation(sig, {"case": name, "program": prog, "inputs": jsonable(inputs), "extra": extra, "k": k, "choices": ch.choices}, msg, size=len(ch.choices))
    if stats.get("cap_hit"):
        acc.caps.append({"case": name, "k": k, "cap": cap, "unexplored_prefixes": stats["cap_left"]})
    acc.counters[f"peak[{name},k={k}]"] = max(peaks)
    acc.sample({"case": name, "k": k, "bodies": nbodies, "peak_in_flight": max(peaks)}, 4)
    return acc


def coverage_extra(acc, tier, seed):
    return {"bounds": {"k": [str(k) for k in KS], "bodies": "<=4" if tier == "quick" else "<=6", "nesting_depth": 2 if tier == "quick" else 3}, "deviation_bound_completed": "unbounded"}


def replay(rep):
    if "history" in rep:
        acc = Acc()
        history_case(acc, *rep["history"], "quick")
        return [v["message"] for v in acc.violations.values()]
    ap = _apply_sync(rep["program"])
    _, x0 = run_once(lambda ch: _run(ap, rep["inputs"], rep["extra"], None, ch), [])
    _, x = run_once(lambda ch: _run(ap, rep["inputs"], rep["extra"], rep["k"], ch), rep["choices"])
    return [m for _, m in judge(x, rep["k"], x0.view())]
