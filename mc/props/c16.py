"""C16 - scoping: entry points limit what runs; results hold only requested outputs (DESIGN 4, C16)."""
from __future__ import annotations

import copy
import itertools

from .. import templates as T
from ..dsl import H, execute, jsonable
from ..evidence import Acc
from ..progen import ancestors, dag_program, dag_shapes, out_name, shape_names

PID = "C16"
BOTH_CONSTRUCTION_PATHS = True  # every program once with constructor-built and once with decorator-built nodes (mc/dsl.py VIA)
LEVEL = "exploration"
TECHNIQUE = "bounded-exhaustive enumeration of (program, entry-point set, graph-level selection, run-time selection, on_missing, result kind) configurations on the real runners with a scope monitor over call log, result keys/values and warnings"
LEVEL_TEXT = (
    "every DAG shape inside the bounds x every entry-point set x graph-level and run-time selections x on_missing modes x result kind (completed, "
    "failed, paused), plus gated programs with every decision (unproduced branches), cached gates with a warm cache, emit-only outputs and "
    "selections on nested graphs: the call log must stay inside the entry nodes and their descendants, result keys inside declared outputs and "
    "the effective selection, no sentinel / bookkeeping key may appear, and a selected-but-unproduced name is ignored / warned once / an error."
)
LEVEL_NOTE = 'descendants are computed by the harness from the program (data, control and ordering dependencies); inputs supplied = parameters of active nodes not produced by active nodes; every program on both construction paths; None / falsy produced values; prefix-related output names selected in string form; run-then-derive histories'
RULE = "configurations enumerated exhaustively (quick: N<=2 complete, N=3 a rotating slice); distinct_nontrivial = distinct configurations with an entry-point set or a selection"
ASSUMPTIONS = ["with entry points configured the outputs of the excluded upstream nodes are supplied by the caller", "values are provenance terms"]


def _active(shape, entry):
    """Entry nodes and everything downstream of them (node indices)."""
    anc, prod = ancestors(shape)
    act = set(entry)
    for j in range(len(shape)):
        if anc[j] & set(entry):
            act.add(j)
    return act


def _dag_configs(tier, seed):
    for N in (1, 2, 3):
        for si, shape in enumerate(dag_shapes(N, 2, 2, 1)):
            exts, consumed, outs = shape_names(shape)
            if not outs:
                continue
            if N == 3 and (tier == "quick") and (si + seed) % 40 != 0:
                continue
            entries = [None] + [sub for r in range(1, N + 1) for sub in itertools.combinations(range(N), r)]
            gsels = [None] + [[o] for o in outs[:3]] + ([outs[:2]] if len(outs) >= 2 else [])
            for entry in entries:
                for gsel in gsels:
                    rsels = ["unset", "**"] + [[o] for o in outs[:2]]
                    for rsel in rsels:
                        for om in ("ignore", "warn", "error"):
                            if om != "ignore" and rsel in ("unset", "**") and gsel is None:
                                continue
                            yield shape, entry, gsel, rsel, om


def shards(tier, seed):
    return [(tier, seed, s, 48) for s in range(48)] + [(tier, seed, "special", 0)]


def scope_violations(x, *, declared, effective, active_nodes, om, unproduced_selected, inputs):
    """effective: list of selected names or None (all)."""
    from hypergraph.nodes.base import _EMIT_SENTINEL

    out = []
    ran = {c.nid for c in x.h.calls}
    if active_nodes is not None and not ran <= active_nodes:
        out.append(({"symptom": "node-outside-entry-scope-ran"}, f"nodes {sorted(ran - active_nodes)} ran although they are upstream of / unrelated to the entry points"))
    res = x.result
    err = x.exc
    if res is not None and not isinstance(res, list):
        vals = res.values
        bad = [k for k in vals if k not in declared]
        if bad:
            out.append(({"symptom": "undeclared-key-in-values"}, f"result contains {bad}, not declared outputs of the graph"))
        if effective is not None:
            extra = [k for k in vals if k not in effective]
            if extra:
                out.append(({"symptom": "value-outside-selection", "status": res.status.value}, f"result contains {extra}, outside the effective selection {effective}"))
        if any(v is _EMIT_SENTINEL for v in vals.values()):
            out.append(({"symptom": "sentinel-in-values"}, "an ordering sentinel was returned as a value"))
        if "__routing_decision__" in vals:
            out.append(({"symptom": "bookkeeping-key-in-values"}, "internal routing key returned"))
        err = err or res.error
    missing_w = [w for w in x.warnings if "Requested outputs not found" in w]
    if unproduced_selected is not None:
        st = x.status
        if unproduced_selected and st in ("completed", "raised", "failed"):
            if om == "ignore" and (missing_w or isinstance(err, ValueError) and "not found" in str(err)):
                out.append(({"symptom": "on_missing-ignore-not-silent"}, f"on_missing='ignore' but warnings={missing_w} error={err!r}"))
            if om == "warn" and x.exc is None and res.status.value == "completed" and len(missing_w) != 1:
                out.append(({"symptom": "on_missing-warn-count"}, f"on_missing='warn': {len(missing_w)} warnings for unproduced {unproduced_selected}"))
            if om == "error" and not (isinstance(err, ValueError) and "not found" in str(err)) and not x.h.injected:
                out.append(({"symptom": "on_missing-error-not-raised"}, f"on_missing='error' but no ValueError for unproduced {unproduced_selected} (status {st}, error {err!r})"))
        if not unproduced_selected:
            if missing_w or (isinstance(err, ValueError) and "not found" in str(err)):
                out.append(({"symptom": "on_missing-spurious"}, f"nothing selected is unproduced but warnings={missing_w} error={err!r}"))
    return out


VALMODES = {"none": None, "zero": 0, "empty": ()}


def run_dag_config(acc, shape, entry, gsel, rsel, om, runner, fault, valmode="term"):
    exts, consumed, outs = shape_names(shape)
    prog, provided = dag_program(shape, {e: frozenset("P") for e in exts}, set(), is_async=(runner == "async"))
    if valmode != "term":
        # every node returns None / a falsy value for each of its outputs: a produced value is a produced value
        v = VALMODES[valmode]
        for sp in prog["nodes"]:
            if sp.get("outs"):
                sp["behav"] = {"const": v if len(sp["outs"]) == 1 else [v] * len(sp["outs"])}
    act = set(range(len(shape))) if entry is None else _active(shape, entry)
    anc, prod = ancestors(shape)
    if entry is not None:
        prog["entry"] = [prog["nodes"][j]["id"] for j in entry]
    if gsel is not None:
        prog["select"] = list(gsel)
    # inputs: parameters of active nodes not produced by active nodes
    inputs = {}
    for j in act:
        for p in shape[j][0]:
            if p in prod and prod[p] in act:
                continue
            inputs[p] = ["prov", p]
    kw = {}
    if rsel != "unset":
        kw["select"] = rsel
    kw["on_missing"] = om
    fs = None
    if fault is not None:
        fs = {(prog["nodes"][fault]["id"], None)}
        kw["error_handling"] = "continue"
    h = H(fault=fs)
    x = execute(prog, inputs, runner=runner, h=h, **kw)
    acc.evaluations += 1
    effective = None
    if rsel == "**":
        effective = None
    elif rsel != "unset":
        effective = list(rsel)
    elif gsel is not None:
        effective = list(gsel)
    produced = {out_name(j, k) for j in act for k in range(shape[j][1])} | set(inputs)
    unprod = None
    if effective is not None and fault is None:
        unprod = [o for o in effective if o not in produced]
    active_ids = {prog["nodes"][j]["id"] for j in act}
    vs = scope_violations(x, declared=set(outs), effective=effective, active_nodes=active_ids, om=om, unproduced_selected=unprod, inputs=inputs)
    if fault is None and x.exc is None and x.result is not None and x.result.status.value == "completed":
        # every produced name inside the selection is present
        want = produced & set(outs) if effective is None else (produced & set(effective))
        miss = sorted(want - set(x.result.values))
        if miss:
            vs.append(({"symptom": "selected-produced-value-missing"}, f"{miss} were produced and selected but are not in the result"))
    w = {"kind": "dag", "program": prog, "inputs": inputs, "run_select": rsel, "on_missing": om, "runner": runner, "fault": fault, "valmode": valmode}
    for sig, msg in vs:
        acc.violation({**sig, "entry": entry is not None, "graph_select": gsel is not None, "run_select": rsel != "unset", **({"values": valmode} if valmode != "term" else {})}, w, msg if valmode == "term" else f"[every node returns {VALMODES[valmode]!r}] {msg}")
    acc.outcomes[(x.status, entry is not None, bool(unprod))] += 1
    return w


def derived_scope_history(acc, shape, entry, runner):
    """Run the un-scoped graph first, THEN derive the scoped graph from that very object and run it:
    a scope computed for the parent must not survive into the derived graph."""
    from ..dsl import build

    exts, consumed, outs = shape_names(shape)
    prog, provided = dag_program(shape, {e: frozenset("P") for e in exts}, set(), is_async=(runner == "async"))
    anc, prod = ancestors(shape)
    h = H()
    g = build(prog, h)
    x0 = execute(prog, provided, runner=runner, h=h, graph=g)
    act = _active(shape, entry)
    inputs = {}
    for j in act:
        for p in shape[j][0]:
            if not (p in prod and prod[p] in act):
                inputs[p] = ["prov2", p]
    g2 = g.with_entrypoint(*[prog["nodes"][j]["id"] for j in entry])
    n0 = len(h.calls)
    x = execute(prog, inputs, runner=runner, h=h, graph=g2)
    acc.evaluations += 2
    ran = {c.nid for c in h.calls[n0:]}
    active_ids = {prog["nodes"][j]["id"] for j in act}
    if not ran <= active_ids:
        acc.violation(
            {"symptom": "node-outside-entry-scope-ran", "history": "run-then-derive"},
            {"kind": "derived", "program": prog, "entry": list(entry), "runner": runner},
            f"after running the un-scoped graph, the graph derived with_entrypoint({[prog['nodes'][j]['id'] for j in entry]}) ran {sorted(ran - active_ids)} outside its scope",
        )


def special(acc, tier):
    from hypergraph.cache import InMemoryCache

    ins = {"e0": ["prov", "e0"]}
    # gated: every decision, selections of branch outputs (unproduced branches), warm cache on the gate
    for runner in ("sync", "async"):
        for dec in ("p", "pq", "END", None):
            for cached in (False, True):
                for sel in (["x0"], ["y0"], ["x0", "y0", "s0"], "**", "unset"):
                    for om in ("ignore", "warn", "error"):
                        p = T.set_async(T.route3(True), runner == "async")
                        p["nodes"][1]["behav"] = {"seq": [dec]}
                        cache = None
                        if cached:
                            for s in p["nodes"]:
                                s["cache"] = True
                            cache = InMemoryCache()
                            execute(p, ins, runner=runner, h=H(), cache=cache)
                        kw = {"on_missing": om}
                        if sel != "unset":
                            kw["select"] = sel
                        x = execute(p, ins, runner=runner, h=H(), cache=cache, **kw)
                        acc.evaluations += 1
                        produced = {"a0", "s0"} | ({"x0"} if dec == "p" else set()) | ({"y0"} if dec == "pq" else set())
                        eff = None if sel in ("**", "unset") else sel
                        unprod = None if eff is None else [o for o in eff if o not in produced]
                        for sig, msg in scope_violations(x, declared={"a0", "x0", "y0", "s0"}, effective=eff, active_nodes=None, om=om, unproduced_selected=unprod, inputs=ins):
                            acc.violation({**sig, "family": "gated", "cached": cached}, {"kind": "gated", "decision": dec, "cached": cached, "select": sel, "on_missing": om, "runner": runner, "program": p}, msg)
                        acc.key(("gated", runner, dec, cached, repr(sel), om))
    # emit-only outputs: the signal name is a declared output but must never be returned
    for runner in ("sync", "async"):
        for sel in ("unset", "**", ["sig"], ["sig", "w0"]):
            p = T.set_async(T.prog([T.fn("prod", ["e0"], ["a0"], emit=["sig"]), T.fn("w1", ["e0"], ["w0"], wait_for=["sig"])]), runner == "async")
            kw = {} if sel == "unset" else {"select": sel}
            x = execute(p, ins, runner=runner, h=H(), **kw)
            acc.evaluations += 1
            eff = None if sel in ("**", "unset") else sel
            for sig, msg in scope_violations(x, declared={"a0", "sig", "w0"}, effective=eff, active_nodes=None, om="ignore", unproduced_selected=None, inputs=ins):
                acc.violation({**sig, "family": "emit"}, {"kind": "emit", "select": sel, "runner": runner, "program": p}, msg)
            if x.result is not None and "sig" in x.result.values:
                acc.violation({"symptom": "emit-name-in-values", "family": "emit"}, {"kind": "emit", "select": sel, "runner": runner, "program": p}, "emit-only output returned as a value")
            acc.key(("emit", runner, repr(sel)))
    # on_missing through runner.map (every item is a run: the policy applies to each item), both runners, both error modes
    for dec in ("p", "END"):
        for sel in (["x0"], ["y0"], ["x0", "s0"]):
            for om in ("ignore", "warn", "error"):
                for eh in ("raise", "continue"):
                    views = {}
                    for runner in ("sync", "async"):
                        p = T.set_async(T.route3(True), runner == "async")
                        p["nodes"][1]["behav"] = {"seq": [dec]}
                        x = execute(p, {"e0": [["prov", 0], ["prov", 1]]}, runner=runner, h=H(), method="map", map_over="e0", select=sel, on_missing=om, error_handling=eh)
                        acc.evaluations += 1
                        nwarn = sum(1 for w_ in x.warnings if "Requested outputs not found" in w_)
                        if x.exc is not None:
                            views[runner] = ("raised", type(x.exc).__name__, nwarn > 0)
                        else:
                            views[runner] = ("list", tuple((r.status.value, type(r.error).__name__ if r.error is not None else None, tuple(sorted(r.values))) for r in x.result), nwarn > 0)
                    produced = {"a0", "s0"} | ({"x0"} if dec == "p" else set())
                    unprod = [o for o in sel if o not in produced]
                    w_ = {"kind": "map-on_missing", "decision": dec, "select": sel, "on_missing": om, "eh": eh}
                    acc.key(("map-on_missing", dec, tuple(sel), om, eh))
                    for runner, v in views.items():
                        silent_ok = v[0] == "list" and all(st == "completed" for st, _, _ in v[1]) and not v[2]
                        if unprod and om == "error" and silent_ok:
                            acc.violation({"symptom": "on_missing-error-not-raised", "family": "map", "runner": runner}, w_, f"runner.map ({runner}, error_handling={eh}) with select={sel}, on_missing='error', unproduced {unprod}: every item completed silently")
                        if unprod and om == "warn" and not v[2]:
                            acc.violation({"symptom": "on_missing-warn-count", "family": "map", "runner": runner}, w_, f"runner.map ({runner}) with select={sel}, on_missing='warn', unproduced {unprod}: no warning")
                        if (not unprod or om == "ignore") and not silent_ok:
                            acc.violation({"symptom": "on_missing-spurious" if not unprod else "on_missing-ignore-not-silent", "family": "map", "runner": runner}, w_, f"runner.map ({runner}) with select={sel}, on_missing={om!r}, unproduced {unprod}: {jsonable(v)}")
                    if views["sync"] != views["async"]:
                        acc.violation({"symptom": "map-on_missing-differs-between-runners", "family": "map"}, w_, f"runner.map with select={sel}, on_missing={om!r}, error_handling={eh}: sync gives {jsonable(views['sync'])}, async gives {jsonable(views['async'])}")
    # output names that are prefixes / substrings of one another, selected with the STRING form of select (run-time, graph-level and
    # as the selection a nested graph exposes): the selection is a set of names, never a substring test
    names = ["x", "xy", "xyz", "y"]
    for runner in ("sync", "async"):
        for form in ("run-str", "run-list", "graph", "nested"):
            for sel in names:
                for om in ("ignore", "error"):
                    nodes = [T.fn(f"n_{o}", ["e0"], [o]) for o in names]
                    if form == "nested":
                        inner = T.prog(nodes, name="inr", select=[sel])
                        p = T.set_async(T.prog([T.gnode("inr", inner)]), runner == "async")
                        kw = {}
                    else:
                        p = T.set_async(T.prog(nodes, **({"select": [sel]} if form == "graph" else {})), runner == "async")
                        kw = {"select": sel} if form == "run-str" else ({"select": [sel]} if form == "run-list" else {})
                    x = execute(p, ins, runner=runner, h=H(), on_missing=om, **kw)
                    acc.evaluations += 1
                    acc.key(("prefix-names", runner, form, sel, om))
                    got = None if x.result is None else set(x.result.values)
                    if x.exc is not None or got != {sel}:
                        acc.violation({"symptom": "value-outside-selection" if got and got - {sel} else "selected-produced-value-missing", "family": "prefix-names", "form": form}, {"kind": "prefix-names", "runner": runner}, f"outputs {names}, selection {sel!r} ({form}, on_missing={om}, {runner}): result holds {sorted(got) if got is not None else repr(x.exc)}, expected exactly [{sel!r}]")
    # the same with the producer CACHED on a serialising backend: a restored sentinel must still be recognised
    import shutil
    import tempfile

    from hypergraph.cache import DiskCache

    for runner in ("sync", "async"):
        d = tempfile.mkdtemp(prefix="c16_", dir="/dev/shm" if __import__("os").path.isdir("/dev/shm") else None)
        try:
            p = T.prog([T.fn("prod", ["e0"], ["a0"], emit=["sig"], cache=True), T.fn("w1", ["e0"], ["w0"], wait_for=["sig"])])
            dc = DiskCache(d)
            for round_ in (0, 1):
                x = execute(p, ins, runner=runner, h=H(), cache=dc)
                acc.evaluations += 1
                for sig, msg in scope_violations(x, declared={"a0", "sig", "w0"}, effective=None, active_nodes=None, om="ignore", unproduced_selected=None, inputs=ins):
                    acc.violation({**sig, "family": "emit-cached"}, {"kind": "emit-cached", "runner": runner, "round": round_, "program": p}, msg)
                if x.result is not None and "sig" in x.result.values:
                    acc.violation({"symptom": "emit-name-in-values", "family": "emit-cached"}, {"kind": "emit-cached", "runner": runner, "round": round_, "program": p}, f"run {round_} with a disk-cached emit producer returned the signal name as a value")
            dc._cache.close()
            acc.key(("emit-cached", runner))
        finally:
            shutil.rmtree(d, ignore_errors=True)
    # paused result with a selection; failed result with graph-level selection
    for sel in ("unset", ["a0"], ["ans"], ["b0"]):
        for gsel in (None, ["b0"]):
            p = T.prog([T.fn("pre", ["e0"], ["a0"]), T.interrupt("ask", ["a0"], ["ans"], behav="pause"), T.fn("post", ["ans"], ["b0"])])
            if gsel:
                p["select"] = gsel
            kw = {} if sel == "unset" else {"select": sel}
            x = execute(T.set_async(p, True), ins, runner="async", h=H(), **kw)
            acc.evaluations += 1
            eff = sel if sel != "unset" else gsel
            for sig, msg in scope_violations(x, declared={"a0", "ans", "b0"}, effective=eff, active_nodes=None, om="ignore", unproduced_selected=None, inputs=ins):
                acc.violation({**sig, "family": "paused"}, {"kind": "paused", "select": sel, "graph_select": gsel, "program": p}, msg)
            if x.status != "paused":
                acc.violation({"symptom": "expected-pause"}, {"kind": "paused", "select": sel, "graph_select": gsel, "program": p}, f"status {x.status}")
            acc.key(("paused", repr(sel), repr(gsel)))
    # nested selection: the graph node exposes exactly the inner selection
    for runner in ("sync", "async"):
        for isel in (None, ["b0"], ["c0"], ["b0", "c0"]):
            inner = T.prog([T.fn("nb", ["a0"], ["b0"]), T.fn("nc", ["a0"], ["c0"])], name="inner")
            if isel:
                inner["select"] = isel
            outer = T.prog([T.fn("na", ["e0"], ["a0"]), T.gnode("inner", inner), T.fn("nd", ["b0"] if (isel is None or "b0" in isel) else ["c0"], ["d0"])])
            x = execute(T.set_async(outer, runner == "async"), ins, runner=runner, h=H())
            acc.evaluations += 1
            exposed = set(isel) if isel else {"b0", "c0"}
            declared = {"a0", "d0"} | exposed
            w = {"kind": "nested-select", "inner_select": isel, "runner": runner, "program": outer}
            if x.exc is not None or x.result.status.value != "completed":
                acc.violation({"symptom": "nested-select-run-failed"}, w, f"status {x.status} {x.exc!r}")
                continue
            if set(x.result.values) != declared:
                acc.violation({"symptom": "nested-node-exposes-wrong-outputs"}, w, f"outer result keys {sorted(x.result.values)} expected {sorted(declared)}")
            acc.key(("nested-select", runner, repr(isel)))


def run_shard(shard):
    tier, seed, s, k = shard
    acc = Acc()
    if s == "special":
        special(acc, tier)
        return acc
    for ci, (shape, entry, gsel, rsel, om) in enumerate(_dag_configs(tier, seed)):
        if ci % k != s:
            continue
        for runner in ("sync", "async"):
            faults = [None]
            if om == "ignore" and (gsel is not None or rsel not in ("unset",)):
                act = sorted(range(len(shape)) if entry is None else _active(shape, entry))
                faults += act[-1:]
            if entry is not None and gsel is None and rsel == "unset" and om == "ignore":
                derived_scope_history(acc, shape, entry, runner)
                acc.key((tuple(shape), entry, "run-then-derive", runner))
            if runner == "sync":
                # None / falsy produced values, sync runner (one mode per configuration in the quick tier, all three in the thorough tier)
                for vm in (list(VALMODES) if tier == "thorough" else [list(VALMODES)[ci % 3]]):
                    run_dag_config(acc, shape, entry, gsel, rsel, om, runner, None, vm)
                    acc.key((tuple(shape), entry, repr(gsel), repr(rsel), om, runner, "values", vm))
            for fault in faults:
                w = run_dag_config(acc, shape, entry, gsel, rsel, om, runner, fault)
                if entry is not None or gsel is not None or rsel != "unset":
                    acc.key((tuple(shape), entry, repr(gsel), repr(rsel), om, runner, fault))
        if ci % 4001 == 0:
            acc.sample({k_: jsonable(v) for k_, v in w.items()}, 2)
    return acc


def coverage_extra(acc, tier, seed):
    return {"bounds": {"dag": "N<=3 (quick: N=3 sliced 1/40 by seed), P<=2, O<=2, E<=1", "entry_sets": "all non-empty subsets", "on_missing": ["ignore", "warn", "error"]}}


def replay(rep):
    acc = Acc()
    if rep["kind"] == "derived":
        prog = rep["program"]
        shape = [(tuple(sorted(s["params"])), len(s["outs"])) for s in prog["nodes"]]
        derived_scope_history(acc, shape, tuple(rep["entry"]), rep["runner"])
        return [v["message"] for v in acc.violations.values()]
    if rep["kind"] != "dag":
        special(acc, "quick")
        return [v["message"] for v in acc.violations.values()]
    prog = rep["program"]
    kw = {"on_missing": rep["on_missing"]}
    if rep["run_select"] != "unset":
        kw["select"] = rep["run_select"]
    # rebuild the configuration from the program itself
    shape = [(tuple(sorted(s["params"])), len(s["outs"])) for s in prog["nodes"]]
    ids = [s["id"] for s in prog["nodes"]]
    entry = None if not prog.get("entry") else tuple(ids.index(e) for e in prog["entry"])
    run_dag_config(acc, shape, entry, prog.get("select"), rep["run_select"], rep["on_missing"], rep["runner"], rep["fault"], rep.get("valmode", "term"))
    return [v["message"] for v in acc.violations.values()]
