"""C17 - ordering signals: a waiting node runs after, and once per, each production (DESIGN 4, C17)."""
from __future__ import annotations

from .. import templates as T
from ..dsl import H, execute, jsonable
from ..evidence import Acc
from ..explorer import run_once
from ..nd import explore_nd

PID = "C17"
BOTH_CONSTRUCTION_PATHS = True  # every program once with constructor-built and once with decorator-built nodes (mc/dsl.py VIA)
LEVEL = "model_checking"
TECHNIQUE = "explicit-state model checking of the real scheduler on emit/wait_for programs with nondeterministic gates and data nodes (state pruning at superstep boundaries), signal safety monitor on every step and liveness judged at quiescent terminal states; plus exact iteration counts of signal-synchronised loops"
LEVEL_TEXT = (
    "every environment answer sequence (gate decisions, new/same values) of every signal program in the alphabet (DAG and cyclic, producers that "
    "are functions, gates or interrupts, one or two waiters, wait_for on a signal or on a data name) is explored on the real runners to closure "
    "or horizon. Safety on every step: a waiter starts only after each awaited name was produced in an earlier step, never in a producer's step, "
    "and again only after a new production. Liveness at every quiescent completed state: no waiter is left owed a run."
)
LEVEL_NOTE = "liveness is judged only at terminal quiescent states of completed runs and only when the waiter's other conditions (activation, inputs, staleness by versions read from the final state) hold; every program on both construction paths; cached waiter / producer runs on one cache; resumed-interrupt producers; exact signal-synchronised loops"
RULE = "programs x runners x all env answers x async completion orders within the bound; states = abstract scheduler states incl. the monitor's view; transitions = supersteps"
ASSUMPTIONS = ["a 'production' is the completion of a node that lists the name as output or emit (monitor's own view from the call log)", "names supplied as run inputs count as produced before step 0"]


def programs(tier):
    e = {"e0": ["prov", "e0"]}
    H_ = 7 if tier == "quick" else 10
    # DAGs
    yield ("dag-fn-emit", T.prog([T.fn("prod", ["e0"], ["a0"], emit=["sig"]), T.fn("w1", ["e0"], ["w0"], wait_for=["sig"])]), e, dict(horizon=6))
    yield ("dag-fn-emit-chain", T.prog([T.fn("prod", ["e0"], ["a0"], emit=["sig"]), T.fn("w1", ["a0"], ["w0"], wait_for=["sig"]), T.fn("w2", ["e0"], ["v0"], wait_for=["sig"])]), e, dict(horizon=6))
    yield ("dag-wait-data", T.prog([T.fn("prod", ["e0"], ["a0"]), T.fn("w1", ["e0"], ["w0"], wait_for=["a0"])]), e, dict(horizon=6))
    yield ("dag-gate-emit", T.prog([T.route("gt", ["e0"], ["p", "END"], emit=["sig"]), T.fn("p", ["e0"], ["x0"]), T.fn("w1", ["e0"], ["w0"], wait_for=["sig"])]), e, dict(horizon=6))
    yield ("dag-interrupt-emit", T.prog([T.interrupt("ask", ["e0"], ["ans"], emit=["sig"], behav="answer"), T.fn("w1", ["e0"], ["w0"], wait_for=["sig"])]), e, dict(horizon=6, async_only=True))
    yield ("dag-two-signals", T.prog([T.fn("p1", ["e0"], ["a0"], emit=["s1"]), T.fn("p2", ["a0"], ["b0"], emit=["s2"]), T.fn("w1", ["e0"], ["w0"], wait_for=["s1", "s2"])]), e, dict(horizon=6))
    # one signal with TWO producers (ordered by a data edge): the waiter is held back behind whichever of them is co-ready
    yield (
        "dag-signal-with-two-producers",
        T.prog([T.fn("st1", ["e0"], ["a0"], emit=["stage_done"]), T.fn("st2", ["a0"], ["b0"], emit=["stage_done"]), T.fn("w1", ["e0"], ["w0"], wait_for=["stage_done"]), T.fn("w2", ["a0"], ["v0"], wait_for=["stage_done"])]),
        e,
        dict(horizon=6),
    )
    # cycles
    chat = T.prog([T.fn("step", ["count"], ["count"], emit=["turn_done"], behav="env"), T.route("gt", ["count"], ["step", "END"], wait_for=["turn_done"])])
    yield ("loop-gate-waits-signal", chat, {"count": 0}, dict(horizon=H_))
    chat2 = T.prog(
        [
            T.fn("gen", ["msgs"], ["resp"], behav="env"),
            T.fn("acc", ["msgs", "resp"], ["msgs"], emit=["turn_done"], behav="env"),
            T.route("gt", ["msgs"], ["gen", "END"], wait_for=["turn_done"]),
        ]
    )
    yield ("loop-two-body-gate-waits", chat2, {"msgs": 0}, dict(horizon=H_))
    loopw = T.prog(
        [
            T.fn("gen", ["x"], ["y"], emit=["g_done"], behav="env"),
            T.fn("fol", ["y"], ["z"], wait_for=["g_done"], behav="env"),
            T.fn("upd", ["z"], ["x"], behav="env"),
            T.route("gt", ["x"], ["gen", "END"], default_open=False),
        ]
    )
    yield ("loop-fn-waits-signal", loopw, {"x": 0}, dict(horizon=H_))
    wd = T.prog(
        [
            T.fn("refine", ["a"], ["a"], behav="env"),
            T.route("gt", ["a"], ["refine", "END"]),
            T.fn("scale", ["a"], ["d"], behav="env"),
            T.fn("audit", ["d"], ["rep"], wait_for=["a"], behav="env"),
        ]
    )
    yield ("loop-wait-for-data-name", wd, {"a": 0}, dict(horizon=H_))
    two = T.prog(
        [
            T.fn("setup", ["e0"], ["cfg"], emit=["setup_done"]),
            T.fn("refine", ["a"], ["a"], emit=["round_done"], behav="env"),
            T.route("gt", ["a"], ["refine", "END"]),
            T.fn("report", ["a"], ["rep"], wait_for=["round_done", "setup_done"], behav="env"),
        ]
    )
    yield ("loop-two-signals-one-produced-once", two, {"a": 0, "e0": ["prov", "e0"]}, dict(horizon=H_))
    slow = T.prog(
        [
            T.fn("step", ["count"], ["count"], emit=["tick"], behav="env"),
            T.route("gt", ["count"], ["step", "END"]),
            T.fn("half", ["count"], ["hf"], behav="env"),
            T.fn("obs", ["hf"], ["seen"], wait_for=["tick"], behav="env"),
        ]
    )
    yield ("loop-waiter-reruns-less-often", slow, {"count": 0}, dict(horizon=H_))
    side = T.prog(
        [
            T.fn("step", ["count"], ["count"], emit=["tick"], behav="env"),
            T.route("gt", ["count"], ["step", "END"]),
            T.fn("obs", ["count"], ["seen"], wait_for=["tick"], behav="env"),
        ]
    )
    yield ("loop-side-waiter", side, {"count": 0}, dict(horizon=H_))

    # an emit-only producer (no data output) re-running in a cycle while its waiter holds an older, unconsumed signal
    late = T.prog(
        [
            T.fn("wtr", ["x", "z"], ["wo"], wait_for=["logged"], behav="env"),
            T.fn("na", ["y"], ["x"], behav="env"),
            T.fn("nb", ["x"], ["y"], behav="env"),
            T.fn("nc", ["y"], ["z"], behav="env"),
            T.fn("log", ["x"], [], emit=["logged"]),
        ]
    )
    yield ("loop-emit-only-producer-late-input", late, {"x": 0}, dict(horizon=H_))
    late2 = T.prog(
        [
            T.fn("wtr", ["x", "z"], ["wo"], wait_for=["logged"], behav="env"),
            T.fn("step", ["x"], ["x"], behav="env"),
            T.route("gt", ["x"], ["step", "END"], emit=["logged"]),
            T.fn("nc", ["x"], ["y"], behav="env"),
            T.fn("nd", ["y"], ["z"], behav="env"),
        ]
    )
    yield ("loop-emitting-gate-late-input", late2, {"x": 0}, dict(horizon=H_))
    # entry points: the waiter is reachable from the entry point only through the ordering signal
    for ent in ("load", "flush", None):
        ep = T.prog(
            [
                T.fn("prepare", ["raw"], ["source"]),
                T.fn("load", ["source"], ["batch"]),
                T.fn("flush", ["batch"], ["stored"], emit=["flushed"], behav="env"),
                T.route("verify", ["e0"], ["flush", "END"], wait_for=["flushed"]),
                T.fn("rep", ["e0"], ["rp"], wait_for=["flushed"]),
            ]
        )
        ins = {"e0": ["prov", "e0"]}
        if ent:
            ep["entry"] = [ent]
            ins[{"load": "source", "flush": "batch"}[ent]] = ["prov", "in"]
        else:
            ins["raw"] = ["prov", "raw"]
        yield (f"entrypoint-{ent}-waiters-behind-ordering-edge", ep, ins, dict(horizon=H_))


def systematic(tier):
    """step(c)->c emit s (cycle body), once(e0)->q emit t (runs once), gate(c)->step|END [optionally waiting s],
    waiter(input in {c, e0, q}) waiting any non-empty subset of {s, t, c}, gated by the gate or free."""
    import itertools

    H_ = 7 if tier == "quick" else 9
    i = 0
    for gwait in ((), ("s",)):
        for gopen in (True, False):
            if gwait and not gopen:
                continue  # a closed gate waiting on its own target's signal can never start (by construction)
            for winp in ("c", "e0", "q"):
                names = [n for n in ("s", "t", "c") if n != winp]
                for r in (1, 2, 3):
                    for wf in itertools.combinations(names, r):
                        for gated in (False, True):
                            i += 1
                            tg = ["step", "wtr", "END"] if gated else ["step", "END"]
                            nodes = [
                                T.fn("step", ["c"], ["c"], emit=["s"], behav="env"),
                                T.fn("once", ["e0"], ["q"], emit=["t"], behav="env"),
                                T.route("gt", ["c"], tg, default_open=gopen, **({"wait_for": list(gwait)} if gwait else {})),
                                T.fn("wtr", [winp], ["wo"], wait_for=list(wf), behav="env"),
                            ]
                            yield (f"sys-{i}", T.prog(nodes), {"c": 0, "e0": ["prov", "e0"]}, dict(horizon=H_, systematic=True))


def all_programs(tier):
    yield from programs(tier)
    yield from systematic(tier)


def shards(tier, seed):
    return [(tier, seed, i) for i, _ in enumerate(all_programs(tier))]


def _producers(prog):
    prod = {}
    for s in prog["nodes"]:
        for o in list(s.get("outs", [])) + list(s.get("emit", [])):
            prod.setdefault(o, set()).add(s["id"])
    return prod


def monitor_view(prog):
    waiters = [s for s in prog["nodes"] if s.get("wait_for")]
    prod = _producers(prog)

    def view(h):
        rows = []
        for w in waiters:
            starts = [c for c in h.calls if c.nid == w["id"] and c.depth == 0]
            last = starts[-1].seq if starts else -1
            since = tuple(any(c.nid in prod.get(n, ()) and c.done_seq is not None and c.exc is None and c.done_seq > last for c in h.calls) for n in w["wait_for"])
            rows.append((w["id"], bool(starts), since))
        dec = {}
        for seq, nid, v in h.decisions:
            dec[nid] = repr(v)
        return (tuple(rows), tuple(sorted(dec.items())))

    return view


def signal_violations(prog, inputs, x):
    from .c03 import _levels, _norm

    out = []
    h = x.h
    prod = _producers(prog)
    calls = [c for c in h.calls if c.depth == 0]
    by_node = {}
    for c in calls:
        by_node.setdefault(c.nid, []).append(c)
    # productions: (step, name) for completed calls
    productions = []
    for c in calls:
        if c.exc is None and c.done_seq is not None:
            s = h.specs[c.nid]
            for o in list(s.get("outs", [])) + list(s.get("emit", [])):
                productions.append((c.step, o, c))
    called = {(c.nid, c.step) for c in calls}
    for t in (t for t in h.steps if t.depth == 0 and t.post is not None):
        for n in t.ready:
            if (n, t.step) not in called and n in t.post.node_executions and n in h.specs:
                s = h.specs[n]
                for o in list(s.get("outs", [])) + list(s.get("emit", [])):
                    productions.append((t.step, o, None))
    for w in (s for s in prog["nodes"] if s.get("wait_for")):
        starts = by_node.get(w["id"], [])
        prev = None
        for c in starts:
            for name in w["wait_for"]:
                steps = [st for (st, o, pc) in productions if o == name]
                if name in inputs:
                    steps = [-1] + steps
                if not any(st < c.step for st in steps):
                    out.append(({"symptom": "waiter-started-before-production"}, f"{w['id']} started in step {c.step} before {name} was produced"))
                if any(pc.step == c.step for pc in calls if pc.nid in prod.get(name, ()) and pc.nid != w["id"]):
                    out.append(({"symptom": "waiter-started-in-producer-step"}, f"{w['id']} started in step {c.step}, the same step as a producer of {name}"))
                if prev is not None and not any(prev.step <= st < c.step for st in steps if st >= 0):
                    out.append(({"symptom": "waiter-restarted-without-new-production"}, f"{w['id']} started again in step {c.step} although {name} was not produced again since its last start (step {prev.step})"))
            prev = c
    # liveness at quiescent completed states
    if x.result is not None and not isinstance(x.result, list) and x.exc is None and x.result.status.value == "completed" and not x.pruned:
        top = [t for t in h.steps if t.depth == 0]
        if top and top[-1].post is not None:
            st = top[-1].post
            graph = top[-1].graph
            ctrl = next(iter(_levels(prog)))[1]
            lastdec = {}
            for seq, nid, v in h.decisions:
                lastdec[nid] = _norm(h.specs[nid], v)

            def stale(node):
                le = st.node_executions.get(node.name)
                if le is None:
                    return True
                gated = bool(graph.controlled_by.get(node.name))
                for p in node.inputs:
                    if not gated and node.name in graph.self_producers.get(p, set()):
                        continue
                    if st.get_version(p) != le.input_versions.get(p, 0):
                        return True
                return False

            for w in (s for s in prog["nodes"] if s.get("wait_for")):
                node = graph._nodes[w["id"]]
                gates = ctrl.get(w["id"], [])
                if gates:
                    act = False
                    for g in gates:
                        gnode = graph._nodes[g["id"]]
                        if g["id"] in lastdec:
                            if stale(gnode):
                                act = None  # pending re-evaluation: not judged
                                break
                            d = lastdec[g["id"]]
                            if d not in (None, ("invalid",)) and w["id"] in d:
                                act = True
                        elif g.get("default_open", True):
                            act = True
                    if not act:
                        continue
                if not all((p in st.values) or node.has_default_for(p) or p in graph.inputs.bound for p in node.inputs):
                    continue
                if not all(n in st.values for n in w["wait_for"]):
                    continue
                starts = by_node.get(w["id"], [])
                if starts:
                    if not stale(node):
                        continue
                    last = starts[-1]

                    def anew(n):
                        """produced anew since the waiter's last start: any emission of a signal; for a DATA name a
                        production whose value differs from the value the name had when the waiter last started"""
                        emit_names = {e for sp in prog["nodes"] for e in sp.get("emit", [])}
                        later = [(st_, pc) for (st_, o, pc) in productions if o == n and ((pc is not None and pc.done_seq > last.seq) or (pc is None and st_ > last.step))]
                        if n in emit_names:
                            return bool(later)
                        before = [pc for (st_, o, pc) in productions if o == n and pc is not None and pc.done_seq < last.seq]
                        ref = _value_of(before[-1], n, h) if before else inputs.get(n, "<absent>")
                        return any(pc is None or _value_of(pc, n, h) != ref for _, pc in later)

                    if not all(anew(n) for n in w["wait_for"]):
                        continue
                out.append(
                    (
                        {"symptom": "waiter-owed-at-quiescence", "waiter_kind": w["kind"], "ran_before": bool(starts)},
                        f"run completed but {w['id']} is owed a run: every awaited name was produced anew after its last start, it is activated, has its inputs and its inputs changed",
                    )
                )
    return out


def _value_of(call, name, h):
    outs = h.specs[call.nid].get("outs", [])
    if name not in outs:
        return "<signal>"
    return call.ret if len(outs) == 1 else call.ret[outs.index(name)]


def _judge(prog, inputs):
    def judge(x):
        if x.deadlock or x.horizon:
            return [({"symptom": "no-termination"}, "run did not terminate")]
        return signal_violations(prog, inputs, x)

    return judge


def exact_loop_violations(runner, N):
    """Deterministic signal-synchronised loop: the gate runs once per production, the loop iterates exactly N times."""
    prog = T.prog(
        [
            T.fn("step", ["count"], ["count"], emit=["turn_done"], behav={"py": "count + 1"}),
            T.route("gt", ["count"], ["step", "END"], wait_for=["turn_done"], behav={"py": f"'step' if count < {N} else END"}),
        ]
    )
    p = T.set_async(prog, runner == "async")
    x = execute(p, {"count": 0}, runner=runner, h=H(), max_iterations=4 * N + 10, error_handling="continue")
    out = []
    steps = sum(1 for c in x.h.calls if c.nid == "step")
    gates = sum(1 for c in x.h.calls if c.nid == "gt")
    exp_steps = max(N, 1)  # do-while: the body runs once before the gate can see the signal
    cnt = None if x.result is None or isinstance(x.result, list) else x.result.values.get("count")
    if x.exc is not None or steps != exp_steps or gates != exp_steps or cnt != exp_steps:
        out.append(
            (
                {"symptom": "signal-loop-iteration-count"},
                f"loop with gate waiting on the end-of-iteration signal, N={N}: body ran {steps}x, gate ran {gates}x, count={cnt} (expected {exp_steps} each); status={x.status}",
            )
        )
    return out, prog


def interrupt_resume_violations():
    """An interrupt that produces a signal, driven through pause then resume: the waiter runs after the answer."""
    out = []
    prog = T.prog([T.interrupt("ask", ["e0"], ["ans"], emit=["sig"], behav="pause"), T.fn("w1", ["e0"], ["w0"], wait_for=["sig"]), T.fn("w2", ["ans"], ["v0"], wait_for=["sig"])])
    p = T.set_async(prog, True)
    ins = {"e0": ["prov", "e0"]}
    h = H()
    from ..dsl import build

    g = build(p, h)
    x1 = execute(p, ins, runner="async", h=h, graph=g)
    if x1.status != "paused":
        return [({"symptom": "interrupt-producer-did-not-pause"}, f"status {x1.status}")], prog
    if any(c.nid in ("w1", "w2") for c in h.calls):
        out.append(({"symptom": "waiter-started-before-production"}, "a waiter of the interrupt's signal ran before the interrupt was answered"))
    n0 = len(h.calls)
    x2 = execute(p, {**ins, "ans": ["resp", "ask", "ans"]}, runner="async", h=h, graph=g)
    ran = [c.nid for c in h.calls[n0:]]
    if x2.status != "completed" or ran.count("w1") != 1 or ran.count("w2") != 1 or "w0" not in x2.result.values:
        out.append(({"symptom": "waiter-owed-at-quiescence", "waiter_kind": "fn", "producer": "resumed-interrupt"}, f"after the interrupt was answered its signal's waiters ran {ran} (status {x2.status}); each must run exactly once"))
    return out, prog


def cached_waiter_violations(runner, waiter_cached, producer_cached):
    """A waiter (and / or its producer) with cache=True, the graph run twice against ONE cache: in the warm run the waiter's start is
    served from the cache - it still consumed the signal.  Per run the waiter starts (is scheduled: function call or cache hit) as
    often as the signal is produced, and the warm run returns what the cold run returned."""
    from hypergraph.cache import InMemoryCache

    from ..dsl import build

    prog = T.prog(
        [
            T.fn("announce", ["seed"], ["banner"], emit=["go"], **({"cache": True} if producer_cached else {})),
            T.fn("inc", ["n"], ["n"], behav={"py": "n + 1"}),
            T.route("chk", ["n"], ["inc", "END"], behav={"py": "END if n >= 3 else 'inc'"}),
            T.fn("audit", ["n"], ["audited"], wait_for=["go"], behav={"py": "('audited', n)"}, **({"cache": True} if waiter_cached else {})),
        ]
    )
    p = T.set_async(prog, runner == "async")
    h = H()
    g = build(p, h)
    cache = InMemoryCache()
    out = []
    views = []
    for k in range(3):
        s0 = len(h.steps)
        x = execute(p, {"seed": ["prov", "seed"], "n": 0}, runner=runner, h=h, graph=g, cache=cache, max_iterations=40)
        steps = [t for t in h.steps[s0:] if t.depth == 0]
        starts = sum(1 for t in steps if "audit" in t.ready)
        prods = sum(1 for t in steps if "announce" in t.ready)
        views.append((x.status, None if x.result is None else tuple(sorted((k_, repr(v)) for k_, v in x.result.values.items()))))
        if x.status == "completed" and starts != prods:
            out.append(({"symptom": "waiter-restarted-without-new-production" if starts > prods else "waiter-owed-at-quiescence", "cached": True}, f"run #{k + 1} on one cache ({runner}; cached waiter={waiter_cached}, cached producer={producer_cached}): the waiter was started {starts}x for {prods} production(s) of the signal"))
            break
    if not out and len(set(views)) != 1:
        out.append(({"symptom": "warm-run-differs-from-cold-run", "cached": True}, f"{runner}; cached waiter={waiter_cached}, cached producer={producer_cached}: the three runs returned {jsonable(views)}"))
    return out, prog


def run_shard(shard):
    tier, seed, i = shard
    acc = Acc()
    name, prog, inputs, meta = list(all_programs(tier))[i]
    if meta.get("systematic"):
        from ..dsl import build

        try:
            build(prog, H())
        except Exception:  # noqa: BLE001
            acc.counters["systematic_configurations_rejected_by_constructor"] += 1
            return acc
    if i == 1:
        vs, ip = interrupt_resume_violations()
        acc.evaluations += 2
        acc.key(("interrupt-resume",))
        for sig, msg in vs:
            acc.violation(sig, {"interrupt_resume": True, "program": ip}, msg)
    for runner in ("sync", "async"):
        if meta.get("async_only") and runner == "sync":
            continue
        p = T.set_async(prog, runner == "async")
        cfgs = [dict(suspend=False)] + ([dict(suspend=True)] if runner == "async" else [])
        for cfg in cfgs:
            for ch, x in explore_nd(p, inputs, runner, horizon=meta["horizon"], acc=acc, case_key=name, judge=_judge(p, inputs), monitor_extra=monitor_view(p), bound=1 if tier == "quick" else 2, max_execs=8000 if tier == "quick" else 80000, **cfg):
                acc.outcomes[(name, runner, x.status)] += 1
            acc.key((name, runner, cfg["suspend"]))
        if tier == "thorough":
            un = 0
            for ch, x in explore_nd(p, inputs, runner, horizon=min(5, meta["horizon"]), acc=acc, case_key=name + "/unpruned", judge=_judge(p, inputs), bound=0, max_execs=30000, prune=False, suspend=False):
                un += 1
            acc.counters["unpruned_executions"] += un
    if i == 2:
        for runner in ("sync", "async"):
            for wc, pc in ((True, False), (False, True), (True, True)):
                vs, cp = cached_waiter_violations(runner, wc, pc)
                acc.evaluations += 3
                acc.key(("cached-waiter", runner, wc, pc))
                for sig, msg in vs:
                    acc.violation(sig, {"cached_waiter": [runner, wc, pc], "program": cp}, msg)
    if i == 0:
        for runner in ("sync", "async"):
            for N in range(0, 6 if tier == "quick" else 12):
                vs, lp = exact_loop_violations(runner, N)
                acc.evaluations += 1
                acc.key(("exact-loop", runner, N))
                for sig, msg in vs:
                    acc.violation(sig, {"exact_loop": N, "runner": runner, "program": lp}, msg, size=N)
    acc.sample({"program": name, "spec": prog}, 1)
    return acc


def coverage_extra(acc, tier, seed):
    return {"horizon": 7 if tier == "quick" else 10, "deviation_bound_completed": {"sched": 1 if tier == "quick" else 2, "env": "unbounded"}}


def replay(rep):
    if "interrupt_resume" in rep:
        return [m for _, m in interrupt_resume_violations()[0]]
    if "cached_waiter" in rep:
        return [m for _, m in cached_waiter_violations(*rep["cached_waiter"])[0]]
    if "exact_loop" in rep:
        return [m for _, m in exact_loop_violations(rep["runner"], rep["exact_loop"])[0]]
    prog, inputs, runner = rep["program"], rep["inputs"], rep["runner"]

    def run(ch):
        h = H(ch, suspend=rep["suspend"])
        return execute(prog, inputs, runner=runner, chooser=ch, h=h, max_iterations=rep["horizon"], error_handling="continue")

    _, x = run_once(run, rep["choices"])
    return [m for _, m in _judge(prog, inputs)(x)]
