"""C18 - run isolation: no state leaks between runs; caller-owned objects untouched (DESIGN 4, C18)."""
from __future__ import annotations

import copy
import itertools
import threading

from .. import seams
from .. import templates as T
from ..dsl import H, build, jsonable
from ..evidence import Acc, account_sched
from ..explorer import HarnessError, explore, run_once

PID = "C18"
LEVEL = "model_checking"
TECHNIQUE = "exhaustive exploration of run histories (every sequence of <=D runs over two graphs x two runner instances x sync/async x call forms) and of concurrent interleavings: two async runs on one runner under a virtual loop (all completion orders) and two SyncRunner runs on two real threads under a baton scheduler (all interleavings at node-call / superstep granularity; iterative context bounding with a preemption point at every library-function entry / executed library line)"
LEVEL_TEXT = (
    "graphs whose functions mutate their default-valued list/dict arguments (flat, nested to depth 2, renamed wrapper inputs) are run in every "
    "history and every interleaving inside the bounds; equal inputs must give equal results at every position, function __defaults__ must stay "
    "deep-equal to their initial snapshot, the caller's input mapping must be the same mapping with the same objects, and bound / provided objects "
    "must reach the function as the very same object."
)
LEVEL_NOTE = "threads: (a) all interleavings at coarse points (node-function entry, superstep boundary); (b) preemption-bounded exploration at fine points: every entry into a library function (quick: <=1 preemption; thorough: <=2 for three configurations) and every executed library source line (thorough, <=1 preemption), on two distinct runners and on ONE shared SyncRunner"
RULE = "histories to depth D (quick 2, thorough 3) over 24 run operations; async pairs: all completion orders; thread pairs: all interleavings (preemption-unbounded at the chosen granularity); states = scheduler frontiers; distinct_nontrivial = distinct histories / interleavings with >=2 runs"
ASSUMPTIONS = ["mutation happens at function entry, the result is read after the suspension point (so a shared default is visible across interleaved runs)"]

BOUND = ["BOUND-OBJ"]


def graphs():
    """-> {name: program}; node 'f' mutates its default list, 'g' its default dict."""
    f = T.fn("f", ["x", "acc"], ["out"], defaults={"acc": {"$list": []}}, behav={"py": "list(acc)"}, mutate="acc")
    g = T.fn("g", ["out", "cfg", "d"], ["res"], defaults={"d": {"$list": []}}, behav={"py": "(tuple(out), tuple(d), id(cfg))"}, mutate="d")
    t = T.fn("t", ["x", "tags"], ["tg"], defaults={"tags": ["a", "b"]}, behav={"py": "tuple(tags)"})
    u = T.fn("u", ["tg", "slots"], ["sl"], defaults={"slots": [{"$list": []}, "k"]}, behav={"py": "tuple(slots[0])"}, mutate_member="slots")
    # a frozen dataclass default holding a list: immutable on the surface only
    fz = T.fn("fz", ["x", "box"], ["fzo"], defaults={"box": {"$frozen": []}}, behav={"py": "tuple(box.items)"}, mutate_frozen="box")
    flat = T.prog([f, g, t, u, fz])
    fi = T.fn("fi", ["x", "acc"], ["out"], defaults={"acc": {"$list": []}}, behav={"py": "list(acc)"}, mutate="acc")
    inner = T.prog([fi], name="inr")
    mid = T.prog([T.gnode("inr", inner, rename_in={"x": "xx"})], name="mid")
    go = T.fn("go", ["out", "cfg"], ["res"], behav={"py": "(tuple(out), id(cfg))"})
    nested = T.prog([T.gnode("mid", mid), go])
    return {"flat": flat, "nested": nested}


XOBJ = {"flat": ["X-flat"], "nested": ["X-nested"], "flat@g": ["O-tail"], "nested@go": ["O-ntail"]}
XNAME = {"flat": "x", "nested": "xx", "flat@g": "out", "nested@go": "out"}


class Env:
    """Two graphs, two runners of each kind, one harness; built once per explored execution."""

    def __init__(self, chooser=None, suspend=False, baton=None, kinds=("sync", "async"), names=None):
        from hypergraph import AsyncRunner, SyncRunner

        self.h = H(chooser, suspend=suspend)
        self.baton = baton
        self.recv = []  # (node, param, id) of objects received
        h = self.h

        def hook(c, phase):
            spec = h.specs[c.nid]
            if baton is not None:
                baton.point()
            m = spec.get("mutate")
            if m:
                c.args[m].append(("m", spec["name"], len(c.args[m])))
            mm = spec.get("mutate_member")
            if mm:
                c.args[mm][0].append(("mm", spec["name"], len(c.args[mm][0])))
            mf = spec.get("mutate_frozen")
            if mf:
                c.args[mf].items.append(("mf", spec["name"], len(c.args[mf].items)))
            for p in ("cfg", "x"):
                if p in c.args:
                    self.recv.append((c.nid, p, id(c.args[p])))

        h.body_hook = hook
        if baton is not None:
            h.step_hook = lambda tok, state: baton.point()
        self.g = {}
        self.funcs = {}
        for name, prog in graphs().items():
            if names is not None and name not in names:
                continue
            for kind in kinds:
                nodes = []
                p = T.set_async(prog, kind == "async")
                # distinct node ids per (graph, kind) build
                p = _suffix(p, "_" + kind[0])
                g = build(p, h, nodes)
                self.g[(name, kind)] = g.bind(cfg=BOUND)
                # a sibling of the same graph object entered further down (shares nodes, hash and defaults with its parent)
                tail = {"flat": "g", "nested": "go"}[name]
                self.g[(f"{name}@{tail}", kind)] = self.g[(name, kind)].with_entrypoint(tail)
        self.runners = {("A", "sync"): SyncRunner(), ("B", "sync"): SyncRunner(), ("A", "async"): AsyncRunner(), ("B", "async"): AsyncRunner()}
        self.defaults0 = self.defaults()

    def defaults(self):
        out = {}
        for key, g in self.g.items():
            for n in _all_nodes(g):
                if hasattr(n, "func"):
                    out[(key, n.name)] = copy.deepcopy(n.func.__defaults__)
        return out


def _suffix(p, suf):
    p = copy.deepcopy(p)
    for s in T.all_specs(p):
        s["name"] = s["id"]
        if s["kind"] != "graph":
            s["fname"] = s["id"]
        s["id"] = s["id"] + suf
    return p


def _all_nodes(g):
    for n in g.nodes.values():
        yield n
        if n.nested_graph is not None:
            yield from _all_nodes(n.nested_graph)


OPS = [(gn, slot, kind, form) for gn in ("flat", "nested") for slot in ("A", "B") for kind in ("sync", "async") for form in ("dict", "dict+kw", "kw")]
OPS += [(gn, slot, kind, "dict") for gn in ("flat@g", "nested@go") for slot in ("A",) for kind in ("sync", "async")]
_ALONE = {}


def alone(op):
    """The view of this run operation performed first, in a fresh environment (the reference for every history position)."""
    k = (op[0], op[2], op[3])
    if k not in _ALONE:
        _ALONE[k] = do_run(Env(), op)[0]
    return _ALONE[k]


def call_args(gname, form):
    xn = XNAME[gname]
    xo = XOBJ[gname]
    extra = ["extra"]
    if form == "dict":
        return {xn: xo, "unused_": extra}, {}, {xn: xo, "unused_": extra}
    if form == "dict+kw":
        return {"unused_": extra}, {xn: xo}, {"unused_": extra}
    return None, {xn: xo, "unused_": extra}, None


def do_run(env, op, loop_runner=None):
    """Perform one run operation; returns (view, violations)."""
    from ..vloop import VLoop

    gname, slot, kind, form = op
    g = env.g[(gname, kind)]
    runner = env.runners[(slot, kind)]
    vals, kw, before = call_args(gname, form)
    n_recv = len(env.recv)
    vs = []
    try:
        with seams.use(env.h):
            if kind == "sync":
                r = runner.run(g, vals, on_internal_override="ignore", **kw) if vals is not None else runner.run(g, on_internal_override="ignore", **kw)
            else:
                loop = VLoop()
                env.h.loop = loop
                try:
                    coro = runner.run(g, vals, on_internal_override="ignore", **kw) if vals is not None else runner.run(g, on_internal_override="ignore", **kw)
                    r = loop.run_main(coro, env.h.ch if env.h.ch is not None else _Z())
                finally:
                    loop.close()
    except Exception as e:  # noqa: BLE001
        return ("raised", type(e).__name__, str(e)[:100]), [("run-raised", f"{op}: {type(e).__name__}: {str(e)[:120]}")]
    vs += check_objects(env, gname, vals, before, n_recv)
    view = (r.status.value, tuple(sorted((k, _strip(v)) for k, v in r.values.items())))
    return view, vs


def _strip(v):
    """result values contain id(cfg) - replace by 'is the bound object'"""
    if isinstance(v, tuple):
        return tuple(("BOUND" if x == id(BOUND) else _strip(x)) for x in v)
    if isinstance(v, list):
        return tuple(_strip(x) for x in v)
    return v


def check_objects(env, gname, vals, before, n_recv):
    vs = []
    if vals is not None:
        if set(vals) != set(before) or any(vals[k] is not before[k] for k in before):
            vs.append(("caller-mapping-modified", f"the caller's input mapping was modified: {sorted(vals)} (was {sorted(before)})"))
    for nid, p, i in env.recv[n_recv:]:
        if p == "cfg" and i != id(BOUND):
            vs.append(("bound-object-copied", f"node {nid} received a different object than the one bound to cfg"))
        if p == "x" and i != id(XOBJ["nested" if nid.startswith("fi") else "flat"]):
            vs.append(("provided-object-copied", f"node {nid} received a different object than the one provided"))
    d = env.defaults()
    if d != env.defaults0:
        bad = sorted(str(k) for k in d if d[k] != env.defaults0[k])
        vs.append(("function-defaults-mutated", f"function __defaults__ changed for {bad}"))
        env.defaults0 = d
    return vs


class _Z:
    def choose(self, kind, label, n):
        return 0


def check_history(acc, hist):
    env = Env()
    first = {}
    for pos, op in enumerate(hist):
        view, vs = do_run(env, op)
        acc.evaluations += 1
        acc.transitions += 1
        ref = first.setdefault(op[0], view)
        if view != alone(op) and not vs:
            vs.append(("result-differs-from-run-alone", f"run #{pos + 1} {op} returned {jsonable(view)} but the same call as the first one of a fresh process returns {jsonable(alone(op))}"))
        if view != ref and not vs:
            vs.append(("result-differs-between-runs", f"run #{pos + 1} {op} returned {jsonable(view)} but an earlier run of the same graph with equal inputs returned {jsonable(ref)}"))
        if view[0] != "completed" and not vs:
            vs.append(("run-not-completed", f"{op}: {view}"))
        for sym, msg in vs:
            acc.violation({"symptom": sym, "nested": op[0] == "nested", "form": op[3] if sym == "caller-mapping-modified" else "any"}, {"kind": "history", "history": [list(o) for o in hist]}, f"history {hist}: {msg}", size=len(hist))
        if vs:
            break


# ---------------------------------------------------------------- concurrent async
def async_pair(acc, pair, tier):
    from ..vloop import Deadlock, Horizon, VLoop
    import asyncio

    def run(ch):
        env = Env(ch, suspend=True)
        loop = VLoop()
        env.h.loop = loop
        runner = env.runners[("A", "async")]
        calls = []
        for gname in pair:
            vals, kw, before = call_args(gname, "dict")
            calls.append((gname, vals, before))

        async def main():
            return await asyncio.gather(*[runner.run(env.g[(gn, "async")], vals, on_internal_override="ignore") for gn, vals, _ in calls])

        try:
            with seams.use(env.h):
                rs = loop.run_main(main(), ch)
        except (Deadlock, Horizon) as e:
            return env, None, [("no-termination", str(e))]
        except Exception as e:  # noqa: BLE001
            return env, None, [("run-raised", f"{type(e).__name__}: {e}")]
        finally:
            loop.close()
        vs = []
        for gn, vals, before in calls:
            vs += check_objects(env, gn, vals, before, len(env.recv))
        vs += check_objects(env, pair[0], None, None, 0)
        views = [(r.status.value, tuple(sorted((k, _strip(v)) for k, v in r.values.items()))) for r in rs]
        return env, views, vs

    # reference: the same graph alone
    ref = {}
    for gname in set(pair):
        env = Env()
        ref[gname], _ = do_run(env, (gname, "A", "async", "dict"))
    stats = {}
    for ch, (env, views, vs) in explore(run, bound=None if tier == "thorough" else 3, max_execs=5000, stats=stats):
        acc.evaluations += 1
        acc.traces += 1
        account_sched(acc, ("async-pair", pair), ch)
        if views is not None:
            for gn, v in zip(pair, views):
                if v != ref[gn]:
                    vs.append(("concurrent-run-result-differs", f"concurrent async run of {gn} returned {jsonable(v)}, alone it returns {jsonable(ref[gn])}"))
        acc.outcomes[("async-pair", pair, tuple(views) if views else None)] += 1
        for sym, msg in vs:
            acc.violation({"symptom": sym, "mode": "async-concurrent"}, {"kind": "async-pair", "pair": list(pair), "choices": ch.choices}, msg, size=len(ch.choices))
    if stats.get("cap_hit"):
        acc.caps.append({"async-pair": pair, "cap": 5000})


# ---------------------------------------------------------------- threads under a baton
class Baton:
    def __init__(self, chooser, n):
        self.ch = chooser
        self.sems = [threading.Semaphore(0) for _ in range(n)]
        self.main = threading.Semaphore(0)
        self.local = threading.local()
        self.alive = []
        self.npoints = 0

    def point(self):
        tid = getattr(self.local, "tid", None)
        if tid is None:
            return
        self.npoints += 1
        self.main.release()
        self.sems[tid].acquire()

    def run(self, funcs):
        results = [None] * len(funcs)

        def body(i):
            self.local.tid = i
            self.sems[i].acquire()
            try:
                results[i] = ("ok", funcs[i]())
            except BaseException as e:  # noqa: BLE001
                results[i] = ("exc", e)
            self.alive.remove(i)
            self.main.release()

        ts = [threading.Thread(target=body, args=(i,), daemon=True) for i in range(len(funcs))]
        self.alive = list(range(len(funcs)))
        for t in ts:
            t.start()
        while self.alive:
            k = self.ch.choose("thread", tuple(self.alive), len(self.alive))
            self.sems[self.alive[k]].release()
            if not self.main.acquire(timeout=30):
                raise RuntimeError("baton: thread did not reach a scheduling point in 30 s")
        for t in ts:
            t.join(5)
        return results


def thread_pair(acc, pair, tier):
    ref = {}
    for gname in set(pair):
        env = Env()
        ref[gname], _ = do_run(env, (gname, "A", "sync", "dict"))

    def run(ch):
        baton = Baton(ch, 2)
        env = Env(None, baton=baton)
        seams.install()
        prev = seams.CURRENT
        seams.CURRENT = env.h
        calls = []
        for gname in pair:
            vals, kw, before = call_args(gname, "dict")
            calls.append((gname, vals, before))
        try:
            funcs = [(lambda gn=gn, vals=vals, slot=slot: env.runners[(slot, "sync")].run(env.g[(gn, "sync")], vals, on_internal_override="ignore")) for (gn, vals, _), slot in zip(calls, ("A", "B"))]
            rs = baton.run(funcs)
        finally:
            seams.CURRENT = prev
        vs = []
        views = []
        for (gn, vals, before), (st, r) in zip(calls, rs):
            if st == "exc":
                vs.append(("run-raised", f"threaded run of {gn} raised {type(r).__name__}: {r}"))
                views.append(None)
            else:
                views.append((r.status.value, tuple(sorted((k, _strip(v)) for k, v in r.values.items()))))
        for gn, vals, before in calls:
            vs += check_objects(env, gn, vals, before, len(env.recv))
        vs += check_objects(env, pair[0], None, None, 0)
        return env, views, vs

    stats = {}
    for ch, (env, views, vs) in explore(run, bound=None if tier == "thorough" else 3, max_execs=4000, stats=stats):
        acc.evaluations += 1
        acc.traces += 1
        account_sched(acc, ("thread-pair", pair), ch)
        for gn, v in zip(pair, views):
            if v is not None and v != ref[gn]:
                vs.append(("concurrent-run-result-differs", f"threaded sync run of {gn} returned {jsonable(v)}, alone it returns {jsonable(ref[gn])}"))
        acc.outcomes[("thread-pair", pair, tuple(views))] += 1
        for sym, msg in vs:
            acc.violation({"symptom": sym, "mode": "threads"}, {"kind": "thread-pair", "pair": list(pair), "choices": ch.choices}, msg, size=len(ch.choices))
    if stats.get("cap_hit"):
        acc.caps.append({"thread-pair": pair, "cap": 4000})


# ---------------------------------------------------------------- threads, fine-grained (preemption-bounded, CHESS style)
class FineBaton:
    """Two real threads; a scheduling point is every entry into a library function (gran='call', sys.setprofile) or every
    executed library source line (gran='line', sys.settrace).  Exactly one thread runs at a time; the running thread is
    preempted exactly at the global point numbers in ``switches`` (iterative context bounding: len(switches) = number of
    preemptions).  ``eligible`` records every point at which the other thread was still alive, i.e. every place where one
    more preemption could be inserted."""

    def __init__(self, src, start, switches, gran):
        import os

        self.src = os.path.join(src, "")
        self.start = start
        self.switches = set(switches)
        self.gran = gran
        self.sems = [threading.Semaphore(0), threading.Semaphore(0)]
        self.main = threading.Semaphore(0)
        self.alive = [True, True]
        self.count = 0
        self.eligible = []
        self.taken = []

    def tick(self, tid):
        self.count += 1
        c = self.count
        if self.alive[1 - tid]:
            self.eligible.append(c)
            if c in self.switches:
                self.taken.append(c)
                self.sems[1 - tid].release()
                self.sems[tid].acquire()

    def _tracer(self, tid):
        src = self.src
        tick = self.tick
        if self.gran == "call":

            def prof(frame, event, arg):
                if event == "call" and frame.f_code.co_filename.startswith(src):
                    tick(tid)

            return prof, None

        def local(frame, event, arg):
            if event == "line":
                tick(tid)
            return local

        def glob(frame, event, arg):
            if frame.f_code.co_filename.startswith(src):
                return local
            return None

        return None, glob

    def run(self, funcs):
        import sys

        results = [None, None]

        def body(i):
            self.sems[i].acquire()
            prof, trace = self._tracer(i)
            try:
                if prof is not None:
                    sys.setprofile(prof)
                else:
                    sys.settrace(trace)
                try:
                    results[i] = ("ok", funcs[i]())
                finally:
                    sys.setprofile(None)
                    sys.settrace(None)
            except BaseException as e:  # noqa: BLE001
                results[i] = ("exc", e)
            self.alive[i] = False
            if self.alive[1 - i]:
                self.sems[1 - i].release()
            else:
                self.main.release()

        ts = [threading.Thread(target=body, args=(i,), daemon=True) for i in range(2)]
        for t in ts:
            t.start()
        self.sems[self.start].release()
        if not self.main.acquire(timeout=60):
            raise HarnessError("fine baton: the two threads did not finish within 60 s")
        for t in ts:
            t.join(5)
        return results


FINE_CFG = [(pair, slots) for pair in (("flat", "flat"), ("nested", "nested"), ("flat", "nested")) for slots in (("A", "B"), ("A", "A"))]


def fine_exec(cfg, start, switches, gran, ref):
    """One execution of two sync runs on two threads under the given preemption schedule -> (views, violations, baton)."""
    import os

    pair, slots = cfg
    baton = FineBaton(os.path.join(os.environ.get("VERIF_REPO", "/repo"), "src", "hypergraph"), start, switches, gran)
    env = Env(None, kinds=("sync",), names=set(pair))
    seams.install()
    prev = seams.CURRENT
    seams.CURRENT = env.h
    calls = []
    for gname in pair:
        vals, kw, before = call_args(gname, "dict")
        calls.append((gname, vals, before))
    try:
        funcs = [(lambda gn=gn, vals=vals, slot=slot: env.runners[(slot, "sync")].run(env.g[(gn, "sync")], vals, on_internal_override="ignore")) for (gn, vals, _), slot in zip(calls, slots)]
        rs = baton.run(funcs)
    finally:
        seams.CURRENT = prev
    vs = []
    views = []
    for (gn, vals, before), (st, r) in zip(calls, rs):
        if st == "exc":
            vs.append(("run-raised", f"threaded run of {gn} raised {type(r).__name__}: {str(r)[:150]}"))
            views.append(None)
        else:
            views.append((r.status.value, tuple(sorted((k, _strip(v)) for k, v in r.values.items()))))
    for gn, vals, before in calls:
        vs += check_objects(env, gn, vals, before, len(env.recv))
    vs += check_objects(env, pair[0], None, None, 0)
    for gn, v in zip(pair, views):
        if v is not None and v != ref[gn]:
            vs.append(("concurrent-run-result-differs", f"threaded sync run of {gn} returned {jsonable(v)}, alone it returns {jsonable(ref[gn])}"))
    return views, vs, baton


def thread_fine(acc, cfg, gran, bound, part, nparts):
    """Every schedule of the two threads with <= ``bound`` preemptions at ``gran`` granularity.  The space is split over shards by
    the position of the FIRST preemption (position % nparts == part); shard 0 also runs the preemption-free schedules."""
    pair, slots = cfg
    ref = {}
    for gname in set(pair):
        ref[gname], _ = do_run(Env(), (gname, "A", "sync", "dict"))
    starts = (0, 1) if (pair[0] != pair[1]) else (0,)  # identical calls on two fresh runners: starting with the other thread is the same schedule
    for start in starts:
        root_views, root_vs, root = fine_exec(cfg, start, (), gran, ref)
        # replay determinism: the same schedule must give the same point count, else nondeterminism the harness does not own
        again = fine_exec(cfg, start, (), gran, ref)[2]
        if again.count != root.count or again.eligible != root.eligible:
            raise HarnessError(f"fine thread schedule not reproducible: {root.count} vs {again.count} points")
        if part == 0:
            _fine_account(acc, cfg, gran, start, (), root_views, root_vs, root)
        frontier = [((q,), None) for q in root.eligible if q % nparts == part]
        while frontier:
            sw, _ = frontier.pop()
            views, vs, b = fine_exec(cfg, start, sw, gran, ref)
            if list(b.taken) != list(sw):
                raise HarnessError(f"fine thread schedule diverged: asked for preemptions at {sw}, taken {b.taken}")
            _fine_account(acc, cfg, gran, start, sw, views, vs, b)
            if len(sw) < bound:
                frontier.extend(((sw + (q,)), None) for q in b.eligible if q > sw[-1])
    if part == 0:
        acc.counters[f"fine-{gran}-points-per-schedule[{'+'.join(pair)}/{''.join(slots)}]"] = root.count


def _fine_account(acc, cfg, gran, start, sw, views, vs, b):
    pair, slots = cfg
    acc.evaluations += 1
    acc.traces += 1
    acc.transitions += len(sw) + 1
    acc.key(("thread-fine", cfg, gran, start, sw))
    acc.state(("thread-fine", cfg, gran, start, sw[:1]))
    acc.counters[f"fine-{gran}-schedules-{len(sw)}-preemptions"] += 1
    acc.outcomes[("thread-fine", pair, slots, tuple(views))] += 1
    for sym, msg in vs:
        acc.violation(
            {"symptom": sym, "mode": "threads-fine", "same_runner": slots[0] == slots[1]},
            {"kind": "thread-fine", "pair": list(pair), "slots": list(slots), "gran": gran, "start": start, "switches": list(sw)},
            f"two SyncRunner runs {pair} on two threads (runners {slots}), {gran}-level preemptions at points {list(sw)} starting with thread {start}: {msg}",
            size=len(sw),
        )


def rebind_after_run(acc):
    """'bound values reach the node as the very object that was bound' along derivation histories of a graph object that has already
    RUN: re-bind to another object, unbind and supply, select / with_entrypoint (binding kept) - flat and nested, both runners, on
    the same and on a fresh runner."""
    other, supplied, kept = ["BOUND-OTHER"], ["SUPPLIED"], ["KEPT"]
    for kind in ("sync", "async"):
        for gname in ("flat", "nested"):
            for fresh_runner in (False, True):
                env = Env(kinds=(kind,), names={gname})
                g = env.g[(gname, kind)]
                xn, xo = XNAME[gname], XOBJ[gname]
                seen = []
                orig_hook = env.h.body_hook

                def hook(c, phase, orig_hook=orig_hook, seen=seen):
                    orig_hook(c, phase)
                    if "cfg" in c.args:
                        seen.append(c.args["cfg"])
                    if "acc" in c.args:
                        accs.append(c.args["acc"])

                accs = []
                env.h.body_hook = hook

                def run(graph, extra=None, slot="A"):
                    from ..vloop import VLoop

                    del seen[:]
                    del accs[:]
                    runner = env.runners[(slot, kind)]
                    vals = {xn: xo, **(extra or {})}
                    with seams.use(env.h):
                        if kind == "sync":
                            return runner.run(graph, vals, on_internal_override="ignore")
                        loop = VLoop()
                        env.h.loop = loop
                        try:
                            return loop.run_main(runner.run(graph, vals, on_internal_override="ignore"), _Z())
                        finally:
                            loop.close()

                gb = g.bind(acc=kept)
                steps = [
                    ("the graph as bound", lambda: g, None, BOUND),
                    ("g.bind(cfg=other) derived after g ran", lambda: g.bind(cfg=other), None, other),
                    ("g.unbind('cfg') derived after g ran, cfg supplied", lambda: g.unbind("cfg"), {"cfg": supplied}, supplied),
                    ("g.select(...) derived after g ran", lambda: g.select(*list(g.outputs)[-1:]), None, BOUND),
                    ("g.bind(cfg=other).bind(cfg=BOUND)", lambda: g.bind(cfg=other).bind(cfg=BOUND), None, BOUND),
                    ("gb = g.bind(acc=KEPT) (a defaulted parameter bound)", lambda: gb, None, BOUND),
                    ("gb.unbind('acc') derived after gb = g.bind(acc=KEPT) ran: back to a fresh copy of the default", lambda: gb.unbind("acc"), None, BOUND),
                    ("the graph as bound, again", lambda: g, None, BOUND),
                ]
                w = {"rebind_after_run": True}
                for label, derive, extra, expect in steps:
                    try:
                        r = run(derive(), extra, "B" if fresh_runner and label != steps[0][0] else "A")
                    except Exception as e:  # noqa: BLE001
                        acc.violation({"symptom": "run-raised", "mode": "rebind-after-run"}, w, f"{gname}/{kind}: {label}: {type(e).__name__}: {str(e)[:150]}")
                        break
                    acc.evaluations += 1
                    acc.key(("rebind-after-run", kind, gname, fresh_runner, label))
                    if "acc=KEPT" in label and r.status.value == "completed":
                        want_kept = "unbind" not in label
                        bad = [a for a in accs if (a is kept) != want_kept]
                        if not accs or bad:
                            acc.violation({"symptom": "stale-or-wrong-bound-object", "mode": "rebind-after-run", "param": "defaulted"}, w, f"{gname}/{kind} ({'fresh' if fresh_runner else 'same'} runner): {label}: the function received acc = {[jsonable(a) for a in accs]} ({'the bound object' if want_kept else 'a fresh copy of the signature default, not the formerly bound object'} expected)")
                            break
                    if r.status.value != "completed" or not seen or any(o is not expect for o in seen):
                        acc.violation({"symptom": "bound-object-copied" if seen and all(o == expect for o in seen) else "stale-or-wrong-bound-object", "mode": "rebind-after-run"}, w, f"{gname}/{kind} ({'fresh' if fresh_runner else 'same'} runner): {label}: status {r.status.value}, the node received {[jsonable(o) for o in seen]} - expected the very object {jsonable(expect)}")
                        break


def mapping_node_identity(acc):
    """Bound values reach the node function as the very object that was bound - also when the graph is the inner graph of
    a MAPPING node (depth 1 and 2), for every clone setting, every item and repeated runs, both runners; and runner.map."""
    from hypergraph import AsyncRunner, SyncRunner

    from ..dsl import run_async, run_sync

    obj = ["BOUND-INNER"]
    for runner in ("sync", "async"):
        for depth in (1, 2):
            for clone in (False, True, ["cfg"], ["other"]):
                for entry in ("node", "node-renamed", "map"):
                    if entry == "map" and (depth != 1 or isinstance(clone, list) and clone == ["other"]):
                        continue
                    h = H()
                    seen = []

                    def hook(c, phase):
                        if "cfg" in c.args:
                            seen.append(c.args["cfg"] is obj)

                    h.body_hook = hook
                    inner = T.set_async(T.prog([T.fn("mi", ["x", "cfg", "other"], ["out"], behav={"py": "x"})], name="inr"), runner == "async")
                    ig = build(inner, h).bind(cfg=obj)
                    if depth == 2:
                        from hypergraph import Graph

                        ig = Graph([ig.as_node()], name="mid")
                    w = {"mapping_node_identity": True}
                    try:
                        if entry == "map":
                            r = SyncRunner() if runner == "sync" else AsyncRunner()
                            for _ in range(2):
                                if runner == "sync":
                                    run_sync(ig, {"x": [1, 2], "other": ["o"]}, h, runner=r, method="map", map_over="x", clone=clone)
                                else:
                                    run_async(ig, {"x": [1, 2], "other": ["o"]}, h, None, runner=r, method="map", map_over="x", clone=clone)
                        else:
                            from hypergraph import Graph

                            n = ig.as_node().map_over("x", clone=clone)
                            ins = {"x": [1, 2], "other": ["o"]}
                            if entry == "node-renamed":
                                n = n.with_inputs({"cfg": "cfg2", "x": "xs"})
                                ins = {"xs": [1, 2], "other": ["o"]}
                            outer = Graph([n])
                            for _ in range(2):
                                if runner == "sync":
                                    run_sync(outer, dict(ins), h)
                                else:
                                    run_async(outer, dict(ins), h, None)
                    except Exception as e:  # noqa: BLE001
                        acc.violation({"symptom": "run-raised", "mode": "mapping-node"}, w, f"mapping node over a graph with an inner binding (depth {depth}, clone={clone}, {entry}, {runner}): {type(e).__name__}: {str(e)[:150]}")
                        continue
                    acc.evaluations += 2
                    acc.key(("mapping-node-identity", runner, depth, repr(clone), entry))
                    if len(seen) != 4 or not all(seen):
                        acc.violation({"symptom": "bound-object-copied", "nested": True, "form": "mapping-node", "clone": repr(clone) if clone in (False, True) else "list"}, w, f"value bound on the inner graph of a mapping node (depth {depth}, clone={clone}, {entry}, {runner}): items received the bound object itself {seen} (expected 4x True)")


PAIRS = [("flat", "flat"), ("nested", "nested"), ("flat", "nested")]


def shards(tier, seed):
    out = [(tier, seed, "hist", i) for i in range(len(OPS))]
    out += [(tier, seed, "async", i) for i in range(len(PAIRS))]
    out += [(tier, seed, "threads", i) for i in range(len(PAIRS))]
    for ci in range(len(FINE_CFG)):
        for gran, bound, nparts in fine_plan(tier, ci):
            out += [(tier, seed, "fine", (ci, gran, bound, part, nparts)) for part in range(nparts)]
    return out


FINE_DEEP = [(("flat", "flat"), ("A", "A")), (("flat", "flat"), ("A", "B")), (("nested", "nested"), ("A", "A"))]


def fine_plan(tier, ci):
    """(granularity, preemption bound, shards) per configuration.  quick: one preemption at every library-function entry;
    thorough: additionally one preemption at every executed library LINE, and two preemptions (call level) for FINE_DEEP."""
    if tier == "quick":
        return [("call", 1, 4)]
    plan = [("line", 1, 8)]
    plan.append(("call", 2, 64) if FINE_CFG[ci] in FINE_DEEP else ("call", 1, 4))
    return plan


def run_shard(shard):
    tier, seed, part, i = shard
    acc = Acc()
    if part == "hist":
        depth = 2 if tier == "quick" else 3
        first = OPS[i]
        check_history(acc, [first])
        for d in range(1, depth):
            for rest in itertools.product(OPS, repeat=d):
                hist = [first] + list(rest)
                acc.key(tuple(hist))
                acc.traces += 1
                check_history(acc, hist)
        for n in range(1, depth + 1):
            acc.state(("hist-depth", first, n))
        acc.sample({"history": [list(first)] + [list(OPS[(i * 7 + 3) % len(OPS)])]}, 1)
    elif part == "async":
        if i == 0:
            mapping_node_identity(acc)
        if i == 1:
            rebind_after_run(acc)
        acc.key(("async-pair", PAIRS[i]))
        async_pair(acc, PAIRS[i], tier)
    elif part == "fine":
        ci, gran, bound, k, nparts = i
        thread_fine(acc, FINE_CFG[ci], gran, bound, k, nparts)
    else:
        acc.key(("thread-pair", PAIRS[i]))
        thread_pair(acc, PAIRS[i], tier)
    return acc


def coverage_extra(acc, tier, seed):
    return {
        "history_depth": 2 if tier == "quick" else 3,
        "operations": len(OPS),
        "deviation_bound_completed": 3 if tier == "quick" else "unbounded",
        "fine_thread_exploration": {
            "configurations": [[list(p), list(sl)] for p, sl in FINE_CFG],
            "plan": {f"{list(FINE_CFG[ci][0])}/{list(FINE_CFG[ci][1])}": [[g, f"<= {b} preemptions"] for g, b, _ in fine_plan(tier, ci)] for ci in range(len(FINE_CFG))},
            "scheduling_point": "call = every entry into a function defined under src/hypergraph; line = every executed source line under src/hypergraph",
            "preemption_bound_completed": {"call": 1 if tier == "quick" else "2 for FINE_DEEP configurations, 1 otherwise", "line": None if tier == "quick" else 1},
        },
    }


def replay(rep):
    acc = Acc()
    if rep.get("rebind_after_run"):
        rebind_after_run(acc)
    elif rep.get("mapping_node_identity"):
        mapping_node_identity(acc)
    elif rep["kind"] == "history":
        check_history(acc, [tuple(o) for o in rep["history"]])
    elif rep["kind"] == "async-pair":
        async_pair(acc, tuple(rep["pair"]), "quick")
    elif rep["kind"] == "thread-fine":
        cfg = (tuple(rep["pair"]), tuple(rep["slots"]))
        ref = {}
        for gname in set(cfg[0]):
            ref[gname], _ = do_run(Env(), (gname, "A", "sync", "dict"))
        views, vs, b = fine_exec(cfg, rep["start"], tuple(rep["switches"]), rep["gran"], ref)
        return [f"{rep['gran']}-level preemptions at {rep['switches']}: {msg}" for _, msg in vs]
    else:
        thread_pair(acc, tuple(rep["pair"]), "quick")
    return [v["message"] for v in acc.violations.values()]
