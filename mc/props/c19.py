"""C19 - structural mistakes are rejected at graph construction, wherever they occur (DESIGN 4, C19)."""
from __future__ import annotations

import copy
import itertools
import typing
from typing import Annotated, Any, Optional, Union

from .. import templates as T
from ..dsl import H, build, jsonable
from ..evidence import Acc
from ..explorer import HarnessError

PID = "C19"
BOTH_CONSTRUCTION_PATHS = True  # flaw injection and strict-mode graphs once with constructor-built and once with decorator-built nodes
LEVEL = "exploration"
TECHNIQUE = "exhaustive single-flaw injection: every valid base program x every flaw class x every position (also inside a nested graph), expecting GraphConfigError from the constructor and acceptance of the repaired graph; plus the closed universe of type expressions x ALL ordered pairs against a reference compatibility relation, directly and through strict-mode graph construction at every edge position"
LEVEL_TEXT = (
    "(a) for every base program (DAG, gated with 1-3 targets, signals, explicit edges, strict types, nested) every single structural mistake of "
    "the listed classes is injected at every applicable position: the constructor must raise its configuration error (no other exception type), "
    "and the unflawed program must be accepted. (b) every ordered pair of type expressions over {int,bool,str,float,object,NoneType,Any,list,dict,"
    "list[T],dict[K,V],tuple[T,U],Optional,Union,|,Annotated} (depth 1 quick, a depth-2 slice thorough) is judged by is_type_compatible and "
    "compared with the documented rules written as an independent reference; depth<=1 pairs are also pushed through Graph(strict_types=True) at "
    "each edge position of a three-node chain."
)
LEVEL_NOTE = 'pairs whose verdict the documented rules do not fix (an incoming Any against a concrete type, at any depth) are excluded and counted; flaw injection on template, DAG-shape and depth-2 bases, every flawed graph also with reversed node lists, both construction paths; conflict rule enumerated for 3 producers (every exclusive pair, every order), two gates, three-target gates; systematic unions in the type universe'
RULE = "base programs x flaw classes x positions; type universe x ordered pairs; distinct_nontrivial = distinct (base, flaw, position) + distinct type pairs with a determined verdict"
ASSUMPTIONS = ["'illegal names' are those the graph constructor judges (node, output, graph names; graph-node name colliding with an output)", "flaws are single: exactly one mistake per injected program"]


# ---------------------------------------------------------------- (a) flaw injection
def bases():
    e = "e0"
    yield "chain", T.prog([T.fn("na", [e], ["a0"]), T.fn("nb", ["a0", "k"], ["b0", "b1"], defaults={"k": ["dflt", "k"]}), T.fn("nc", ["b0", "k"], ["c0"], defaults={"k": ["dflt", "k"]})], name="base")
    # shared parameters whose (consistent) default is None / falsy: valid, and each flaw around them must still be seen
    yield "chain-none-defaults", T.prog([T.fn("na", [e, "k"], ["a0"], defaults={"k": None}), T.fn("nb", ["a0", "k", "z"], ["b0"], defaults={"k": None, "z": 0}), T.fn("nc", ["b0", "z"], ["c0"], defaults={"z": 0})], name="base")
    yield "chain-shared-undefaulted", T.prog([T.fn("na", [e, "k"], ["a0"]), T.fn("nb", ["a0", "k"], ["b0"]), T.ifelse("gq", ["k"], "na", "END")], name="base")
    for nt in (1, 2, 3):
        tg = ["p", "pq", "pqr"][:nt]
        nodes = [T.fn("src", [e], ["a0"]), T.route("gt", ["a0"], tg + ["END"])] + [T.fn(t, ["a0"], ["x_" + t]) for t in tg]
        yield f"route{nt}", T.prog(nodes, name="base")
    yield "ifelse", T.prog([T.fn("src", [e], ["a0"]), T.ifelse("gt", ["a0"], "p", "pq"), T.fn("p", ["a0"], ["m0"]), T.fn("pq", ["a0"], ["m0"]), T.fn("join", ["m0"], ["j0"])], name="base")
    yield "multi", T.prog([T.fn("src", [e], ["a0"]), T.route("gt", ["a0"], ["p", "pq"], multi=True), T.fn("p", ["a0"], ["x0"]), T.fn("pq", ["a0"], ["y0"])], name="base")
    yield "signals", T.prog([T.fn("prod", [e], ["a0"], emit=["sig"]), T.fn("w1", [e], ["w0"], wait_for=["sig"]), T.fn("w2", ["a0"], ["v0"], wait_for=["sig"])], name="base")
    yield "explicit-edges", T.prog([T.fn("na", [e], ["a0"]), T.fn("nb", ["a0"], ["b0"]), T.fn("nc", ["b0"], ["c0"])], name="base", edges=[["na", "nb"], ["nb", "nc", "b0"]])
    yield "strict", T.prog([T.fn("na", [e], ["a0"], types={e: int, "return": int}), T.fn("nb", ["a0"], ["b0"], types={"a0": int, "return": str}), T.fn("nc", ["b0", "a0"], ["c0"], types={"b0": str, "a0": int, "return": float})], name="base", strict=True)
    # explicit edges + strict types, one producer->consumer pair declared by SEVERAL edge tuples (one per value)
    yield "explicit-strict-split-pair", T.prog(
        [
            T.fn("na", [e], ["a0", "a1", "a2"], types={e: int, "return": tuple[int, str, float]}),
            T.fn("nb", ["a0", "a1", "a2"], ["b0"], types={"a0": int, "a1": str, "a2": float, "return": str}),
            T.fn("nc", ["b0", "a1"], ["c0"], types={"b0": str, "a1": str, "return": float}),
        ],
        name="base",
        strict=True,
        edges=[["na", "nb", "a0"], ["na", "nb", "a1"], ["na", "nb", "a2"], ["nb", "nc", "b0"], ["na", "nc", "a1"]],
    )
    # a node that was already USED (its defaults looked up) and is then renamed so that its defaulted parameter
    # becomes a shared name: the consistency check must see the default under the NEW name
    yield "renamed-default", T.prog(
        [
            T.fn("ra", ["e0", "qq"], ["a0"], defaults={"qq": ["dflt", "k"]}, rename_in={"qq": "k"}, rename_in_chain=[{"qq": "k"}]),
            T.fn("rb", ["a0", "k"], ["b0"], defaults={"k": ["dflt", "k"]}),
        ],
        name="base",
    )
    inner = T.prog([T.fn("ib", ["a0"], ["b0"]), T.route("ig", ["b0"], ["it", "iu", "END"]), T.fn("it", ["b0"], ["t0"]), T.fn("iu", ["b0"], ["u0"])], name="inr")
    yield "nested", T.prog([T.fn("na", [e], ["a0"]), T.gnode("inr", inner), T.fn("oc", ["t0"], ["c0"])], name="base")
    # the same inner graph two levels down (a flaw inside it sits at depth 2)
    mid = T.prog([T.gnode("inr", copy.deepcopy(inner)), T.fn("mc", ["u0"], ["m0"])], name="mid")
    yield "nested2", T.prog([T.fn("na", [e], ["a0"]), T.gnode("mid", mid), T.fn("oc", ["t0", "m0"], ["c0"])], name="base")
    # every gate-free DAG shape with <= 2 nodes (<= 2 parameters / outputs per node, <= 2 external inputs), one external defaulted
    from ..progen import dag_program, dag_shapes, shape_names

    for N in (1, 2):
        for si, shape in enumerate(dag_shapes(N, 2, 2, 2)):
            exts, consumed, outs = shape_names(shape)
            src = {x: frozenset("D") if i == 1 else frozenset("P") for i, x in enumerate(exts)}
            prog, _ = dag_program(shape, src, set())
            prog["name"] = "base"
            yield f"dag{N}-{si}", prog


def flaws(name, prog):
    """yield (flaw class, position label, flawed program, expect_at) - one single mistake each."""
    def clone():
        return copy.deepcopy(prog)

    def levels(p, path=()):
        yield path, p
        for i, s in enumerate(p["nodes"]):
            if s["kind"] == "graph":
                yield from levels(s["inner"], path + (i,))

    def at(p, path):
        for i in path:
            p = p["nodes"][i]["inner"]
        return p

    for path, level in levels(prog):
        where = "/".join(str(i) for i in path) or "top"
        for i, s in enumerate(level["nodes"]):
            # 1. gate target that is not a node
            if s["kind"] == "route":
                for pos in range(len(s["targets"]) + 1):
                    p = clone()
                    at(p, path)["nodes"][i]["targets"].insert(pos, "nope")
                    yield "unknown-gate-target", f"{where}:{s['id']}@{pos}", p
            if s["kind"] == "ifelse":
                for key in ("when_true", "when_false"):
                    p = clone()
                    at(p, path)["nodes"][i][key] = "nope"
                    yield "unknown-gate-target", f"{where}:{s['id']}.{key}", p
            # 2. second producer of a name (not exclusive, not ordered)
            if s["kind"] == "fn":
                for o in s.get("outs", []):
                    p = clone()
                    at(p, path)["nodes"].append(T.fn("dupprod", ["zz"], [o]))
                    yield "second-producer", f"{where}:{o}", p
                    p = clone()
                    at(p, path)["nodes"].insert(0, T.fn("dupprod", ["zz"], [o, "zz_extra"]))
                    yield "second-producer", f"{where}:{o}@first", p
            # 3. duplicate node name
            if s["kind"] in ("fn", "route", "ifelse"):
                p = clone()
                at(p, path)["nodes"].append({"id": "dupname_" + s["id"], "kind": "fn", "name": s.get("name", s["id"]), "fname": "dupname_fn", "params": ["zz"], "outs": ["zz_out"]})
                yield "duplicate-node-name", f"{where}:{s['id']}", p
            # 4. illegal names
            if s["kind"] == "fn":
                for bad in ("END", "class", "1abc", "a-b"):
                    p = clone()
                    at(p, path)["nodes"][i]["name"] = bad
                    at(p, path)["nodes"][i]["fname"] = "fn_" + s["id"]
                    if _is_target(level, s["id"]):
                        continue
                    yield "illegal-node-name", f"{where}:{s['id']}={bad}", p
                for k, o in enumerate(s.get("outs", [])):
                    if _consumed(level, o):
                        continue
                    for bad in ("class", "not valid", "9x"):
                        p = clone()
                        at(p, path)["nodes"][i]["outs"][k] = bad
                        yield "illegal-output-name", f"{where}:{s['id']}.{o}={bad}", p
            # 7. wait_for on a name nobody produces
            if s["kind"] in ("fn", "route", "ifelse"):
                p = clone()
                at(p, path)["nodes"][i]["wait_for"] = list(s.get("wait_for", [])) + ["ghost"]
                yield "wait-for-unproduced", f"{where}:{s['id']}", p
        # 4b. illegal graph names
        for bad in ("a.b", "a/b"):
            p = clone()
            at(p, path)["name"] = bad
            if path:
                continue  # a nested graph's name is also its node name; as_node rejects it before any graph exists
            yield "illegal-graph-name", f"{where}={bad}", p
        # 5. graph-node name equal to an output name
        for i, s in enumerate(level["nodes"]):
            if s["kind"] == "graph":
                for o in [o for t in level["nodes"] if t["kind"] == "fn" for o in t.get("outs", [])][:2]:
                    p = clone()
                    g = at(p, path)["nodes"][i]
                    g["name"] = o
                    g["inner"]["name"] = o
                    yield "graphnode-name-collides-with-output", f"{where}:{s['id']}={o}", p
        # 6. inconsistent defaults for a shared parameter
        shared = {}
        for i, s in enumerate(level["nodes"]):
            if s["kind"] == "fn":
                for q in s.get("params", []):
                    shared.setdefault(q, []).append(i)
        for q, idx in shared.items():
            if len(idx) < 2:
                continue
            has = [q in level["nodes"][i].get("defaults", {}) for i in idx]
            for j, i in enumerate(idx):
                p = clone()
                s2 = at(p, path)["nodes"][i]
                if has[j]:
                    s2["defaults"] = dict(s2["defaults"], **{q: ["other-default", q]})
                    yield "inconsistent-default-value", f"{where}:{q}@{s2['id']}", p
                    p = clone()
                    s2 = at(p, path)["nodes"][i]
                    s2["defaults"] = {k: v for k, v in s2["defaults"].items() if k != q}
                    s2["params"] = [q] + [x for x in s2["params"] if x != q] if False else s2["params"]
                    s2["params"] = [x for x in s2["params"] if x not in s2["defaults"]] + [x for x in s2["params"] if x in s2["defaults"]]
                    yield "inconsistent-default-presence", f"{where}:{q}@{s2['id']}", p
                elif all(not h for h in has):
                    s2["defaults"] = dict(s2.get("defaults", {}), **{q: ["dflt", q]})
                    s2["params"] = [x for x in s2["params"] if x not in s2["defaults"]] + [x for x in s2["params"] if x in s2["defaults"]]
                    yield "inconsistent-default-presence", f"{where}:{q}@{s2['id']}", p
                    # ... a default is a default whatever its value: None / 0 / '' on one consumer, none on the other
                    for fv in (None, 0, ""):
                        p = clone()
                        s3 = at(p, path)["nodes"][i]
                        s3["defaults"] = dict(s3.get("defaults", {}), **{q: fv})
                        s3["params"] = [x for x in s3["params"] if x not in s3["defaults"]] + [x for x in s3["params"] if x in s3["defaults"]]
                        yield "inconsistent-default-presence", f"{where}:{q}@{s3['id']}={fv!r}", p
                if has[j] and all(has):
                    for fv in (None, 0):
                        if level["nodes"][i]["defaults"][q] == fv and type(level["nodes"][i]["defaults"][q]) is type(fv):
                            continue  # (no change)
                        p = clone()
                        s3 = at(p, path)["nodes"][i]
                        s3["defaults"] = dict(s3["defaults"], **{q: fv})
                        yield "inconsistent-default-value", f"{where}:{q}@{s3['id']}={fv!r}", p
        # 6b. the same through a rename: the defaulted parameter of a renamed node meets an undefaulted namesake
        for i, s in enumerate(level["nodes"]):
            for orig, ext in (s.get("rename_in") or {}).items():
                if s["kind"] == "fn" and orig in s.get("defaults", {}):
                    for j, t in enumerate(level["nodes"]):
                        if j != i and ext in t.get("params", []) and ext in t.get("defaults", {}):
                            p = clone()
                            t2 = at(p, path)["nodes"][j]
                            t2["defaults"] = {k: v for k, v in t2["defaults"].items() if k != ext}
                            t2["params"] = [x for x in t2["params"] if x not in t2["defaults"]] + [x for x in t2["params"] if x in t2["defaults"]]
                            yield "inconsistent-default-presence", f"{where}:{ext}@{t2['id']}-vs-renamed-{s['id']}", p
                            p = clone()
                            at(p, path)["nodes"][j]["defaults"][ext] = ["other-default", ext]
                            yield "inconsistent-default-value", f"{where}:{ext}@{t2['id']}-vs-renamed-{s['id']}", p
        # 8. explicit edges naming an unknown node / value
        if level.get("edges") is not None:
            for k, ed in enumerate(level["edges"]):
                for pos in (0, 1):
                    p = clone()
                    at(p, path)["edges"][k][pos] = "ghostnode"
                    yield "edge-unknown-node", f"{where}:edge{k}[{pos}]", p
                p = clone()
                e2 = at(p, path)["edges"][k]
                if len(e2) == 3:
                    e2[2] = "ghostvalue"
                else:
                    e2.append("ghostvalue")
                yield "edge-unknown-value", f"{where}:edge{k}", p
        # 9. strict types: missing annotation / incompatible types on an edge
        if level.get("strict"):
            for i, s in enumerate(level["nodes"]):
                for q in list(s.get("types", {})):
                    consumed = q == "return" and any(o in t.get("params", []) for o in s["outs"] for t in level["nodes"])
                    fed = q != "return" and any(q in t.get("outs", []) for t in level["nodes"])
                    if not (consumed or fed):
                        continue
                    p = clone()
                    del at(p, path)["nodes"][i]["types"][q]
                    yield "strict-missing-annotation", f"{where}:{s['id']}.{q}", p
                    p = clone()
                    at(p, path)["nodes"][i]["types"][q] = bytes
                    yield "strict-incompatible-types", f"{where}:{s['id']}.{q}", p


def _is_target(level, nid):
    for s in level["nodes"]:
        if s["kind"] == "route" and nid in s["targets"]:
            return True
        if s["kind"] == "ifelse" and nid in (s["when_true"], s["when_false"]):
            return True
    return False


def _consumed(level, o):
    return any(o in t.get("params", []) or o in t.get("wait_for", []) for t in level["nodes"])


def try_build(prog):
    from hypergraph.graph.validation import GraphConfigError

    try:
        g = build(prog, H())
    except GraphConfigError as e:
        return "config-error", str(e)[:100]
    except HarnessError:
        raise
    except Exception as e:  # noqa: BLE001
        return "other-exception", f"{type(e).__module__}.{type(e).__name__}: {str(e)[:100]}"
    return "accepted", None


def flaw_part(acc, which, total):
    n = 0
    for name, prog in bases():
        n += 1
        if n % total != which:
            continue
        st, msg = try_build(prog)
        acc.evaluations += 1
        if st != "accepted":
            acc.violation({"symptom": "valid-graph-rejected", "base": name}, {"kind": "base", "base": name, "program": jsonable(_safe(prog))}, f"valid base program {name} rejected: {msg}")
            continue
        if try_build(_reversed(prog))[0] != "accepted":
            acc.violation({"symptom": "valid-graph-rejected", "base": name, "reversed": True}, {"kind": "base", "base": name, "reversed": True, "program": jsonable(_safe(prog))}, f"valid base program {name} rejected when its node lists are reversed")
        for cls, pos, fp in flaws(name, prog):
            for rev in (False, True):
                # the same flawed graph with every node list (all nesting levels) in reverse order: a mistake is a mistake wherever it sits
                fpx = _reversed(fp) if rev else fp
                acc.evaluations += 1
                acc.key((name, cls, pos, rev))
                st, msg = try_build(fpx)
                acc.outcomes[(cls, st)] += 1
                nested = not pos.startswith("top")
                if st == "accepted":
                    acc.violation({"symptom": "flaw-accepted", "flaw": cls, "nested": nested}, {"kind": "flaw", "base": name, "flaw": cls, "position": pos, "reversed": rev, "program": jsonable(_safe(fpx))}, f"{name}: {cls} at {pos} was accepted by the constructor" + (" (node lists reversed)" if rev else ""))
                elif st == "other-exception":
                    acc.violation({"symptom": "flaw-raises-wrong-exception", "flaw": cls, "exception": msg.split(":")[0]}, {"kind": "flaw", "base": name, "flaw": cls, "position": pos, "reversed": rev, "program": jsonable(_safe(fpx))}, f"{name}: {cls} at {pos} raised {msg} instead of the configuration error" + (" (node lists reversed)" if rev else ""))
        acc.sample({"base": name, "flaws": sorted({c for c, _, _ in flaws(name, prog)})}, 2)


def _reversed(prog):
    p = copy.deepcopy(prog)

    def rec(level):
        level["nodes"] = list(reversed(level["nodes"]))
        for sp in level["nodes"]:
            if sp["kind"] == "graph":
                rec(sp["inner"])

    rec(p)
    return p


def _safe(prog):
    p = copy.deepcopy(prog)
    for s in T.all_specs(p):
        if "types" in s:
            s["types"] = {k: repr(v) for k, v in s["types"].items()}
    return p


# ---------------------------------------------------------------- (b) type compatibility
NoneT = type(None)
BASE = [int, bool, str, float, object, NoneT, Any, list, dict]


def universe(depth):
    lvl0 = list(BASE)
    out = list(lvl0)
    elems = [int, bool, str, float, object, NoneT, Any]
    d1 = []
    for t in elems:
        d1.append(list[t])
        d1.append(Optional[t] if t is not NoneT else Union[int, None])
        d1.append(Annotated[t, "m"])
    for k, v in ((str, int), (str, Any), (int, str), (str, bool), (str, object)):
        d1.append(dict[k, v])
    for a, b in ((int, str), (bool, str), (int, int), (object, str), (Any, str)):
        d1.append(tuple[a, b])
    d1.append(tuple[int])
    for a, b in ((int, str), (bool, float), (str, NoneT), (int, float), (list, dict)):
        d1.append(Union[a, b])
        d1.append(a | b)
    d1.append(Union[int, str, float])
    # unions systematically: every 2-member union over eight element types and every 3-member union over six of them (so that
    # both sides of a union -> union pair can share members, be related by subclassing only, or be disjoint)
    uel = [int, bool, str, float, object, NoneT, list, list[int]]
    for a, b in itertools.combinations(uel, 2):
        d1.append(Union[a, b])
    for a, b, c in itertools.combinations(uel[:6], 3):
        d1.append(Union[a, b, c])
    d1 += [bool | int, int | bool, str | int, bool | int | None]
    d1 += [Annotated[list, "m"], Annotated[dict, "m"]]
    # parameterised generics whose origin classes differ but are related by subclassing (list <: Sequence <: Iterable, dict <: Mapping)
    import collections.abc as cabc

    d1 += [cabc.Sequence, cabc.Mapping, cabc.Sequence[int], cabc.Sequence[str], cabc.Sequence[Any], cabc.Sequence[bool], cabc.Iterable[int], cabc.Iterable[str], cabc.Mapping[str, int], cabc.Mapping[str, str], cabc.Mapping[str, Any], cabc.MutableSequence[int]]
    out += d1
    if depth >= 2:
        d2 = []
        sel = [list[int], list[bool], list[Any], Optional[int], Union[int, str], Annotated[int, "m"], dict[str, int], tuple[int, str], int | str]
        for t in sel:
            d2.append(list[t])
            d2.append(Optional[t])
            d2.append(Annotated[t, "x"])
            d2.append(dict[str, t])
            d2.append(tuple[t, int])
            d2.append(Union[t, float])
        out += d2
    # dedupe by repr (Union[int,str] == int|str compare equal but are different objects: keep both forms)
    seen, res = set(), []
    for t in out:
        k = (repr(t), type(t).__name__)
        if k not in seen:
            seen.add(k)
            res.append(t)
    return res


def _is_union(t):
    import types

    return isinstance(t, types.UnionType) or typing.get_origin(t) is Union


def ref_compat(a, b):
    """The documented relation: does a value of (incoming) type a satisfy the (required) type b?
    Returns True / False / None (not fixed by the documented rules)."""
    if a == b:
        return True
    if b is Any:
        return True
    if a is Any:
        return None  # incoming Any against a concrete type: not fixed by the rules
    ua, ub = _is_union(a), _is_union(b)
    if ua:
        rs = [ref_compat(m, b) if not ub else _some(m, typing.get_args(b)) for m in typing.get_args(a)]
        return _all(rs)
    if ub:
        return _some(a, typing.get_args(b))
    oa, ob = typing.get_origin(a), typing.get_origin(b)
    if oa is Annotated:
        return ref_compat(typing.get_args(a)[0], b)
    if ob is Annotated:
        return ref_compat(a, typing.get_args(b)[0])
    ca, cb = oa or a, ob or b
    if not (isinstance(ca, type) and isinstance(cb, type)):
        return ca == cb
    if not issubclass(ca, cb):
        return False
    aa, ab = typing.get_args(a), typing.get_args(b)
    if not aa or not ab:
        return True  # an unparameterised side accepts / is accepted
    if len(aa) != len(ab):
        return False
    return _all([ref_compat(x, y) for x, y in zip(aa, ab)])


def _all(rs):
    if any(r is False for r in rs):
        return False
    if any(r is None for r in rs):
        return None
    return True


def _some(a, members):
    rs = [ref_compat(a, m) for m in members]
    if any(r is True for r in rs):
        return True
    if any(r is None for r in rs):
        return None
    return False


def types_part(acc, tier, which, total):
    from hypergraph._typing import is_type_compatible

    U = universe(1 if tier == "quick" else 2)
    U1 = universe(1)
    n = 0
    for i, a in enumerate(U):
        if i % total != which:
            continue
        for b in U:
            n += 1
            exp = ref_compat(a, b)
            if exp is None:
                acc.counters["pairs_not_fixed_by_documented_rules"] += 1
                continue
            acc.evaluations += 1
            acc.key(("pair", repr(a), repr(b), type(a).__name__, type(b).__name__))
            try:
                got = is_type_compatible(a, b)
            except Exception as e:  # noqa: BLE001
                acc.violation({"symptom": "is_type_compatible-raised", "type": type(e).__name__}, {"kind": "pair", "a": repr(a), "b": repr(b)}, f"is_type_compatible({a!r}, {b!r}) raised {type(e).__name__}: {e}")
                continue
            acc.outcomes[("pair", got)] += 1
            if got != exp:
                acc.violation({"symptom": "type-verdict-differs", "expected": exp, "rule": _rule(a, b)}, {"kind": "pair", "a": repr(a), "b": repr(b)}, f"is_type_compatible({a!r} -> {b!r}) = {got}, the documented rules give {exp}")
            # through strict-mode construction, both edge positions of a 3-node chain (depth<=1 pairs)
            if a in U1 and b in U1 and a is not Any:
                for pos in (0, 1):
                    prog = _chain_with(a, b, pos)
                    st, msg = try_build(prog)
                    acc.evaluations += 1
                    if (st == "accepted") != exp or st == "other-exception":
                        acc.violation({"symptom": "strict-graph-verdict-differs", "expected": exp, "got": st, "rule": _rule(a, b)}, {"kind": "strict-pair", "a": repr(a), "b": repr(b), "pos": pos}, f"Graph(strict_types=True) with edge {a!r} -> {b!r} at position {pos}: {st} {msg or ''}, expected {'accepted' if exp else 'rejected'}")
    acc.sample({"type_universe_size": len(U), "example_pairs": [[repr(U[3]), repr(U[-1])], [repr(U[10]), repr(U[12])]]}, 1)


def _rule(a, b):
    if _is_union(a) or _is_union(b):
        return "union"
    if typing.get_origin(a) is Annotated or typing.get_origin(b) is Annotated:
        return "annotated"
    if typing.get_args(a) or typing.get_args(b):
        return "generic"
    return "class"


def _chain_with(a, b, pos):
    tys = [{"e0": int, "return": int}, {"a0": int, "return": int}, {"b0": int, "return": int}]
    if pos == 0:
        tys[0]["return"] = a
        tys[1]["a0"] = b
    else:
        tys[1]["return"] = a
        tys[2]["b0"] = b
    return T.prog([T.fn("na", ["e0"], ["a0"], types=tys[0]), T.fn("nb", ["a0"], ["b0"], types=tys[1]), T.fn("nc", ["b0"], ["c0"], types=tys[2])], strict=True)


# ---------------------------------------------------------------- (a') the mutex-or-ordered rule, enumerated
def conflict_configs():
    """Three producers A, B, C of the names {x, v}: every assignment of produced names, of what B consumes from
    A's names, of explicit ordering signals between each pair, and of A/B being exclusive if/else branches."""
    subsets = [("x",), ("v",), ("x", "v")]
    for oa in subsets:
        for ob in subsets:
            for oc in [()] + subsets:
                for cons in [()] + [c for c in subsets if set(c) <= set(oa)]:
                    for sig in itertools.product((False, True), repeat=3 if oc else 1):
                        for mutex in (False, True):
                            yield oa, ob, oc, cons, sig, mutex
                        if not cons and oc:
                            # no data consumption (so the rule does not depend on which producer a consumer is wired to): every
                            # choice of the exclusive pair and every order of the producers in the node list
                            for mutex in (False, "ab", "ac", "bc"):
                                for perm in itertools.permutations(range(3)):
                                    if perm == (0, 1, 2) and mutex in (False, "ab"):
                                        continue
                                    yield oa, ob, oc, cons, sig, mutex, perm


def conflict_program(oa, ob, oc, cons, sig, mutex, perm=None):
    if mutex is True:
        mutex = "ab"
    sab = sig[0]
    sac = sig[1] if oc else False
    sbc = sig[2] if oc else False
    A = T.fn("pa", ["e0"], list(oa), emit=[s for s, on in (("s_ab", sab), ("s_ac", sac)) if on])
    B = T.fn("pb", ["e0"] + list(cons), list(ob), emit=["s_bc"] if sbc else [], wait_for=["s_ab"] if sab else [])
    nodes = [A, B]
    if oc:
        nodes.append(T.fn("pc", ["e0"], list(oc), wait_for=[s for s, on in (("s_ac", sac), ("s_bc", sbc)) if on]))
    if perm is not None:
        nodes = [nodes[i] for i in perm]
    if mutex:
        nodes.insert(0, T.ifelse("gt", ["e0"], "p" + mutex[0], "p" + mutex[1]))
    return T.prog(nodes)


def conflict_expected(oa, ob, oc, cons, sig, mutex, perm=None, all_producer_edges=False):
    """Valid iff every two producers of one name are exclusive branches or ordered by a dependency that does
    not itself rest on a name both of them produce.  The consumer pb is wired to the FIRST producer of a name
    (pa); ``all_producer_edges`` additionally counts a dependency on every other producer of a consumed name
    (used only to classify a known finding)."""
    outs = {"pa": set(oa), "pb": set(ob), "pc": set(oc)}
    multi = {n for n in ("x", "v") if sum(n in o for o in outs.values()) >= 2}
    edges = set()
    if sig[0]:
        edges.add(("pa", "pb"))
    if oc and sig[1]:
        edges.add(("pa", "pc"))
    if oc and sig[2]:
        edges.add(("pb", "pc"))
    def reach(a, b, pair):
        # a data edge orders the pair unless everything it carries is produced by BOTH members of the pair
        contested = outs[pair[0]] & outs[pair[1]]
        es = set(edges)
        if any(c not in contested for c in cons):
            es.add(("pa", "pb"))
        if all_producer_edges and oc and any(c in outs["pc"] and c not in contested for c in cons):
            es.add(("pc", "pb"))
        seen, todo = {a}, [a]
        while todo:
            u = todo.pop()
            for (p, q) in es:
                if p == u and q not in seen:
                    seen.add(q)
                    todo.append(q)
        return b in seen

    # exclusive branches: a gate's target plus whatever is reachable (by any dependency) from that target only
    full = set(edges)
    if cons:
        full.add(("pa", "pb"))

    def desc(a):
        seen, todo = {a}, [a]
        while todo:
            u = todo.pop()
            for (p, q) in full:
                if p == u and q not in seen:
                    seen.add(q)
                    todo.append(q)
        return seen

    branch = {}
    if mutex is True:
        mutex = "ab"
    if mutex:
        t1, t2 = "p" + mutex[0], "p" + mutex[1]
        da, db = desc(t1), desc(t2)
        branch = {t1: da - db, t2: db - da}
    prods = [p for p in ("pa", "pb", "pc") if outs[p]]
    for n in multi:
        ps = [p for p in prods if n in outs[p]]
        for a, b in itertools.combinations(ps, 2):
            if mutex and ((a in branch[t1] and b in branch[t2]) or (a in branch[t2] and b in branch[t1])):
                continue
            if not (reach(a, b, (a, b)) or reach(b, a, (a, b))):
                return False
    return True


def conflict_part(acc, which, total):
    for i, cfg in enumerate(conflict_configs()):
        if i % total != which:
            continue
        exp = conflict_expected(*cfg)
        st, msg = try_build(conflict_program(*cfg))
        acc.evaluations += 1
        acc.key(("conflict", cfg))
        acc.outcomes[("conflict", exp, st)] += 1
        if st == "config-error" and exp:
            acc.observations["constructor rejects a producer configuration the reference rule considers ordered/exclusive (conservative, not judged)"] += 1
            continue
        if st == "other-exception" or (st == "accepted") != exp:
            oa, ob, oc, cons, sig, mutex = cfg[:6]
            perm = cfg[6] if len(cfg) > 6 else None
            feature = "ordered-only-via-a-non-first-producer-of-a-consumed-name" if (st == "accepted" and conflict_expected(*cfg, all_producer_edges=True)) else "other"
            acc.violation(
                {"symptom": "producer-conflict-verdict", "expected_valid": exp, "got": st, "feature": feature},
                {"kind": "conflict", "cfg": [list(oa), list(ob), list(oc), list(cons), list(sig), mutex] + ([list(perm)] if perm is not None else [])},
                f"producers pa->{oa} pb->{ob} pc->{oc}, pb consumes {cons}, signals ab/ac/bc={sig}, exclusive pair={mutex}, node-list order of the producers={perm}: constructor says {st} ({msg}), rule says {'valid' if exp else 'conflict'}",
            )


# ---------------------------------------------------------------- (a'') exclusivity is per gate: two gates, producers in any branches
def twogate_configs():
    """Two if/else gates g1 -> (t1 | t2), g2 -> (t3 | t4) and a free node t5; every subset (>= 2) of the five nodes produces the
    name x; optionally one ordering signal between two of the producers; gates listed first or last."""
    names = ["t1", "t2", "t3", "t4", "t5"]
    for r in (2, 3):
        for S in itertools.combinations(names, r):
            for sig in [None] + [(a, b) for a in S for b in S if a != b]:
                for gates_first in (True, False):
                    yield S, sig, gates_first


def twogate_program(S, sig, gates_first):
    nodes = []
    for t in ["t1", "t2", "t3", "t4", "t5"]:
        kw = {}
        if sig and sig[0] == t:
            kw["emit"] = ["s_ord"]
        if sig and sig[1] == t:
            kw["wait_for"] = ["s_ord"]
        nodes.append(T.fn(t, ["e0"], ["x"] if t in S else ["o_" + t], **kw))
    gates = [T.ifelse("g1", ["e0"], "t1", "t2"), T.ifelse("g2", ["e0"], "t3", "t4")]
    return T.prog(gates + nodes if gates_first else nodes + gates)


def twogate_expected(S, sig, gates_first):
    edges = {sig} if sig else set()

    def desc(a):
        seen, todo = {a}, [a]
        while todo:
            u = todo.pop()
            for (p_, q) in edges:
                if p_ == u and q not in seen:
                    seen.add(q)
                    todo.append(q)
        return seen

    groups = []
    for l, r_ in (("t1", "t2"), ("t3", "t4")):
        dl, dr = desc(l), desc(r_)
        groups.append((dl - dr, dr - dl))
    for a, b in itertools.combinations(S, 2):
        if any((a in bl and b in br) or (a in br and b in bl) for bl, br in groups):
            continue
        if b in desc(a) or a in desc(b):
            continue
        return False
    return True


def twogate_part(acc, which, total):
    for i, cfg in enumerate(twogate_configs()):
        if i % total != which:
            continue
        exp = twogate_expected(*cfg)
        st, msg = try_build(twogate_program(*cfg))
        acc.evaluations += 1
        acc.key(("twogate", cfg))
        acc.outcomes[("twogate", exp, st)] += 1
        if st == "config-error" and exp:
            acc.observations["constructor rejects a two-gate producer configuration the reference rule considers ordered/exclusive (conservative, not judged)"] += 1
            continue
        if st == "other-exception" or (st == "accepted") != exp:
            S, sig, gf = cfg
            acc.violation(
                {"symptom": "producer-conflict-verdict", "expected_valid": exp, "got": st, "feature": "two-gates"},
                {"kind": "twogate", "cfg": [list(S), list(sig) if sig else None, gf]},
                f"gates g1->(t1|t2), g2->(t3|t4), free t5; producers of x: {S}, ordering signal {sig}, gates listed {'first' if gf else 'last'}: constructor says {st} ({msg}), rule says {'valid' if exp else 'conflict'}",
            )

# ---------------------------------------------------------------- (a3) exclusive branches of a gate with three targets
def threeway_configs():
    """route g -> (t1 | t2 | t3), t_i -> o_i; a join node j consuming a non-empty subset of {o1, o2, o3} and a node p consuming one
    o_k; the name x is produced by j and by (p or t_k itself).  j is exclusive with something under t_k only when j hangs under
    exactly ONE other target."""
    for r in (1, 2, 3):
        for sj in itertools.combinations((1, 2, 3), r):
            for k in (1, 2, 3):
                for second in ("p", "t"):
                    for multi in (False, True):
                        yield sj, k, second, multi


def threeway_program(sj, k, second, multi):
    nodes = [T.route("g", ["e0"], ["t1", "t2", "t3"], multi=multi)]
    for i in (1, 2, 3):
        nodes.append(T.fn(f"t{i}", ["e0"], [f"o{i}"] + (["x"] if second == "t" and i == k else [])))
    nodes.append(T.fn("j", [f"o{i}" for i in sj], ["x"]))
    if second == "p":
        nodes.append(T.fn("p", [f"o{k}"], ["x"]))
    return T.prog(nodes)


def threeway_expected(sj, k, second, multi):
    other = "p" if second == "p" else f"t{k}"
    edges = {(f"t{i}", "j") for i in sj}
    if second == "p":
        edges.add((f"t{k}", "p"))

    def desc(a):
        seen, todo = {a}, [a]
        while todo:
            u = todo.pop()
            for (p_, q) in edges:
                if p_ == u and q not in seen:
                    seen.add(q)
                    todo.append(q)
        return seen

    if other in desc("j") or "j" in desc(other):
        return True  # ordered by a dependency
    if multi:
        return False  # a multi-target gate may select several targets at once: its branches are not exclusive
    d = {i: desc(f"t{i}") for i in (1, 2, 3)}
    excl = {i: d[i] - set().union(*(d[m] for m in (1, 2, 3) if m != i)) for i in (1, 2, 3)}
    return any("j" in excl[a] and other in excl[b] for a in (1, 2, 3) for b in (1, 2, 3) if a != b)


def threeway_part(acc):
    for cfg in threeway_configs():
        exp = threeway_expected(*cfg)
        st, msg = try_build(threeway_program(*cfg))
        acc.evaluations += 1
        acc.key(("threeway", cfg))
        acc.outcomes[("threeway", exp, st)] += 1
        if st == "config-error" and exp:
            acc.observations["constructor rejects a three-target producer configuration the reference rule considers ordered/exclusive (conservative, not judged)"] += 1
            continue
        if st == "other-exception" or (st == "accepted") != exp:
            sj, k, second, multi = cfg
            acc.violation(
                {"symptom": "producer-conflict-verdict", "expected_valid": exp, "got": st, "feature": "three-target-gate"},
                {"kind": "threeway", "cfg": [list(sj), k, second, multi]},
                f"route g->(t1|t2|t3){' multi-target' if multi else ''}, join j under targets {sj} and {'p under' if second == 'p' else 'target'} t{k} both produce x: constructor says {st} ({msg}), rule says {'valid' if exp else 'conflict'}",
            )


def shards(tier, seed):
    nb = sum(1 for _ in bases())
    out = [(tier, seed, "flaws", i, nb) for i in range(nb)]
    k = 24 if tier == "quick" else 64
    out += [(tier, seed, "types", i, k) for i in range(k)]
    out += [(tier, seed, "conflict", i, 16) for i in range(16)]
    out += [(tier, seed, "twogate", i, 4) for i in range(4)]
    out += [(tier, seed, "threeway", 0, 1)]
    return out


def run_shard(shard):
    tier, seed, part, i, k = shard
    acc = Acc()
    if part == "flaws":
        flaw_part(acc, i, k)
    elif part == "conflict":
        conflict_part(acc, i, k)
    elif part == "twogate":
        twogate_part(acc, i, k)
    elif part == "threeway":
        threeway_part(acc)
    else:
        types_part(acc, tier, i, k)
    return acc


def coverage_extra(acc, tier, seed):
    return {"bounds": {"type_universe": len(universe(1 if tier == "quick" else 2)), "type_depth": 1 if tier == "quick" else 2, "bases": [n for n, _ in bases()]}}


def replay(rep):
    acc = Acc()
    if rep["kind"] in ("pair", "strict-pair"):
        from hypergraph._typing import is_type_compatible

        U = universe(2)
        a = next(t for t in U if repr(t) == rep["a"])
        b = next(t for t in U if repr(t) == rep["b"])
        exp = ref_compat(a, b)
        if rep["kind"] == "pair":
            return [] if is_type_compatible(a, b) == exp else [f"verdict differs for {a!r} -> {b!r}"]
        st, _ = try_build(_chain_with(a, b, rep["pos"]))
        return [] if (st == "accepted") == exp else [f"strict graph verdict differs for {a!r} -> {b!r}"]
    if rep["kind"] == "threeway":
        c = rep["cfg"]
        cfg = (tuple(c[0]), c[1], c[2], c[3])
        st, msg = try_build(threeway_program(*cfg))
        return [] if (st == "accepted") == threeway_expected(*cfg) and st != "other-exception" else [f"three-target conflict verdict {st} {msg}"]
    if rep["kind"] == "twogate":
        c = rep["cfg"]
        cfg = (tuple(c[0]), tuple(c[1]) if c[1] else None, c[2])
        st, msg = try_build(twogate_program(*cfg))
        return [] if (st == "accepted") == twogate_expected(*cfg) and st != "other-exception" else [f"two-gate conflict verdict {st} {msg}"]
    if rep["kind"] == "conflict":
        c = rep["cfg"]
        cfg = (tuple(c[0]), tuple(c[1]), tuple(c[2]), tuple(c[3]), tuple(c[4]), c[5]) + ((tuple(c[6]),) if len(c) > 6 else ())
        st, msg = try_build(conflict_program(*cfg))
        return [] if (st == "accepted") == conflict_expected(*cfg) and st != "other-exception" else [f"conflict verdict {st} {msg}"]
    name = rep["base"]
    prog = next(p for n, p in bases() if n == name)
    if rep["kind"] == "base":
        return [] if try_build(_reversed(prog) if rep.get("reversed") else prog)[0] == "accepted" else ["valid base rejected"]
    for cls, pos, fp in flaws(name, prog):
        if cls == rep["flaw"] and pos == rep["position"]:
            st, msg = try_build(_reversed(fp) if rep.get("reversed") else fp)
            return [] if st == "config-error" else [f"{cls} at {pos}: {st} {msg}"]
    return ["flaw position not found"]
