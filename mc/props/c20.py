"""C20 - visualisation shows exactly the graph's structure in every expansion state (DESIGN 4, C20)."""
from __future__ import annotations

import copy
import itertools
import re

from .. import templates as T
from ..dsl import H, build, jsonable
from ..evidence import Acc
from ..progen import NODE_IDS, dag_shapes, out_name, shape_names
from . import c05

PID = "C20"
LEVEL = "exploration"
TECHNIQUE = "bounded-exhaustive enumeration of nested programs x EVERY valid expansion state x both output modes (interactive view) and every depth x both modes (Mermaid), checked against a dependency list derived independently from the program: self-consistency, completeness (every dependency drawn between visible representatives) and no spurious edge; flat graph structure"
LEVEL_TEXT = (
    "for every program of the alphabet (all small DAG shapes with every convex subset wrapped as a container, re-wrapped inside to depth 2-3, plus "
    "templates with gates/END at several levels, ordering edges, inputs shared across levels, two consumers of one value inside a container, "
    "sibling containers) every expansion state key of nodesByState/edgesByState and both output modes are checked: same key sets, non-empty, "
    "declared endpoints, each program node declared once with the right visibility, each leaf dependency covered by an edge between visible "
    "representatives, no edge without a dependency; Mermaid source parsed at every depth and mode with the same oracle; to_flat_graph ids/parents."
)
LEVEL_NOTE = 'renamed container inputs/outputs are outside the quantifier and the alphabet; an INPUT node owned by a collapsed container is declared-but-hidden by design and may carry its edge (DESIGN C20 O); templates include emitting gates, END at two levels, prefix-named siblings, innermost producer consumed at the root'
RULE = "programs x expansion states x modes; distinct_nontrivial = distinct (program, state, mode) renders with >=1 container"
ASSUMPTIONS = ["a control or ordering dependency between two nodes that also have a data dependency may be drawn as that data edge (the graph keeps one edge per pair)"]


# ---------------------------------------------------------------- programs
def templates():
    yield "flat-gate-order", T.prog([T.fn("src", ["e0"], ["v"], emit=["done"]), T.route("gt", ["v"], ["p", "END"]), T.fn("p", ["v"], ["a"]), T.fn("lst", ["e0"], ["z"], wait_for=["done"])])
    inner = T.prog([T.fn("c1", ["v"], ["a"]), T.fn("c2", ["v", "p", "e0"], ["b"])], name="inner")
    yield "two-consumers-in-container", T.prog([T.fn("src", ["e0"], ["v"]), T.gnode("inner", inner), T.fn("after", ["a", "b"], ["z"])])
    deep = T.prog([T.fn("d1", ["w"], ["x"]), T.fn("d2", ["w", "e0"], ["y"])], name="deep")
    mid = T.prog([T.fn("pre", ["v"], ["w"]), T.gnode("deep", deep), T.fn("post", ["x", "y"], ["a"])], name="mid")
    yield "depth2", T.prog([T.fn("src", ["e0"], ["v"]), T.gnode("mid", mid), T.fn("after", ["a"], ["z"])])
    deeper = T.prog([T.gnode("mid", copy.deepcopy(mid)), T.fn("side", ["e0"], ["s0"])], name="top3")
    yield "depth3", T.prog([T.fn("src", ["e0"], ["v"]), T.gnode("top3", deeper), T.fn("after", ["a", "s0"], ["z"])])
    l3 = T.prog([T.fn("fb", ["e0"], ["b"]), T.fn("fc", ["b"], ["c"])], name="linner")
    l2 = T.prog([T.gnode("linner", l3), T.fn("fm", ["c"], ["m"])], name="lmid")
    l1 = T.prog([T.gnode("lmid", l2), T.fn("fo", ["m"], ["o"])], name="louter")
    yield "innermost-producer-consumed-at-root", T.prog([T.gnode("louter", l1), T.fn("fe", ["b", "o"], ["z"])])
    yield "prefix-named-siblings", T.prog([T.fn("score", ["text"], ["s1"]), T.fn("score_all", ["text", "s1"], ["s2"]), T.gnode("prep", T.prog([T.fn("clean", ["text"], ["cleaned"])], name="prep")), T.fn("prep_report", ["cleaned"], ["r0"])])
    ginner = T.prog([T.fn("w1", ["e0"], ["w0"])], name="ginner")
    yield "gate-to-container", T.prog([T.route("gt", ["e0"], ["ginner", "oth", "END"]), T.gnode("ginner", ginner), T.fn("oth", ["e0"], ["o0"])])
    einner = T.prog([T.fn("ib", ["a0"], ["b0"]), T.route("ig", ["b0"], ["it", "END"]), T.fn("it", ["b0"], ["t0"])], name="einner")
    yield "end-at-two-levels", T.prog([T.fn("na", ["e0"], ["a0"]), T.route("rg", ["a0"], ["einner", "END"]), T.gnode("einner", einner)])
    ga = T.prog([T.fn("a1", ["e0"], ["pa"]), T.fn("a2", ["pa"], ["qa"])], name="ga")
    gb = T.prog([T.fn("b1", ["qa", "pa"], ["pb"]), T.fn("b2", ["pb", "e0"], ["qb"])], name="gb")
    yield "sibling-containers", T.prog([T.gnode("ga", ga), T.gnode("gb", gb), T.fn("jn", ["qa", "qb"], ["j0"])])
    sub = T.prog([T.fn("use", ["val"], ["u0"]), T.fn("use2", ["val", "e0"], ["u1"])], name="sub")
    yield "consumer-before-container", T.prog([T.fn("early", ["val"], ["e1"]), T.fn("produce", ["e0"], ["val"]), T.gnode("sub", sub)])
    # gates that EMIT an ordering signal (a gate has no data outputs but can produce a signal), at the root and inside a container,
    # with the waiter beside the gate and outside the container; an emitting if/else too
    yield "emitting-gate-root", T.prog([T.fn("src", ["e0"], ["v"]), T.route("tri", ["v"], ["p", "END"], emit=["triaged"]), T.fn("p", ["v"], ["a"]), T.fn("aud", ["e0"], ["z"], wait_for=["triaged"])])
    desk = T.prog([T.route("triage", ["v"], ["fix", "END"], emit=["triaged"]), T.fn("fix", ["v"], ["a"]), T.fn("note", ["v"], ["n0"], wait_for=["triaged"])], name="desk")
    yield "emitting-gate-in-container", T.prog([T.fn("src", ["e0"], ["v"]), T.gnode("desk", desk), T.fn("aud", ["a", "e0"], ["z"], wait_for=["triaged"])])
    yield "emitting-ifelse", T.prog([T.fn("src", ["e0"], ["v"]), T.ifelse("chk", ["v"], "p", "q", emit=["checked"]), T.fn("p", ["v"], ["a"]), T.fn("q", ["v"], ["b"]), T.fn("aud", ["e0"], ["z"], wait_for=["checked"])])
    # two containers with the SAME name in different scopes (train/prep and evaluate/prep), inner node names equal too:
    # ids are hierarchical, nothing may be keyed by the bare name
    def _prep(src, dst):
        return T.prog([T.fn("clean", [src], ["mid_" + dst], name="clean"), T.fn("scale", ["mid_" + dst], [dst], name="scale")], name="prep")

    tr = T.prog([T.gnode("prep_t", _prep("raw_t", "feat_t"), name="prep"), T.fn("fit", ["feat_t"], ["model"])], name="train")
    evl = T.prog([T.gnode("prep_e", _prep("raw_e", "feat_e"), name="prep"), T.fn("score", ["feat_e", "model"], ["metric"])], name="evaluate")
    for sp in T.all_specs(tr):
        if sp["kind"] == "fn" and sp["id"] in ("clean", "scale"):
            sp["id"] = sp["id"] + "_t"
    for sp in T.all_specs(evl):
        if sp["kind"] == "fn" and sp["id"] in ("clean", "scale"):
            sp["id"] = sp["id"] + "_e"
    yield "same-named-containers-in-two-scopes", T.prog([T.gnode("train", tr), T.gnode("evaluate", evl)])
    oin = T.prog([T.fn("o1", ["e0"], ["x"], emit=["sig"]), T.fn("o2", ["e0"], ["y"], wait_for=["sig"])], name="oin")
    yield "ordering-inside-container", T.prog([T.gnode("oin", oin), T.fn("fin", ["x", "y"], ["z"])])


def generated(tier, seed):
    for N in (2, 3):
        for si, shape in enumerate(dag_shapes(N, 2, 2, 1)):
            exts, consumed, outs = shape_names(shape)
            if not outs:
                continue
            if tier == "quick" and N == 3 and (si + seed) % 10 != 0:
                continue
            flat = c05.flat_program(shape, {e: "P" for e in exts}, set())
            for S in c05.convex_subsets(shape):
                ids = [NODE_IDS[j] for j in S]
                w1 = c05.wrap(flat, ids, "w1")
                yield f"gen-{N}-{si}-{'_'.join(ids)}-d1", w1
                if len(ids) >= 2:
                    p2 = copy.deepcopy(w1)
                    wn = next(s for s in p2["nodes"] if s["id"] == "w1")
                    wn["inner"] = c05.wrap(wn["inner"], [ids[0]], "v1")
                    yield f"gen-{N}-{si}-{'_'.join(ids)}-d2", p2
                    if tier == "thorough":
                        p3 = copy.deepcopy(p2)
                        w3 = c05.wrap(p3, ["w1"], "w3")
                        yield f"gen-{N}-{si}-{'_'.join(ids)}-d3", w3


# ---------------------------------------------------------------- dependency list from the program
class Struct:
    """Leaf nodes, containers, parents and leaf dependencies of a program."""

    def __init__(self, prog):
        self.parent = {}
        self.kind = {}
        self.deps = []  # (producer path, consumer path, kind, value)
        self.input_consumers = {}  # external input name -> set of leaf paths
        self.end_gates = set()
        self._walk(prog, None)
        self._level(prog, None, {})

    def _walk(self, prog, parent):
        for s in prog["nodes"]:
            pid = s.get("name", s["id"]) if parent is None else f"{parent}/{s.get('name', s['id'])}"
            self.parent[pid] = parent
            self.kind[pid] = s["kind"]
            if s["kind"] == "graph":
                self._walk(s["inner"], pid)

    def _path(self, parent, s):
        n = s.get("name", s["id"])
        return n if parent is None else f"{parent}/{n}"

    def _leaf_producers(self, parent, s, value):
        pid = self._path(parent, s)
        if s["kind"] != "graph":
            return [pid]
        out = []
        for i in s["inner"]["nodes"]:
            if value in _outs(i):
                out += self._leaf_producers(pid, i, value)
        return out

    def _leaf_consumers(self, parent, s, value):
        pid = self._path(parent, s)
        if s["kind"] != "graph":
            return [pid]
        produced = {o for i in s["inner"]["nodes"] for o in _outs(i)}
        if value in produced:
            return []
        out = []
        for i in s["inner"]["nodes"]:
            if value in _ins(i):
                out += self._leaf_consumers(pid, i, value)
        return out

    def _level(self, prog, parent, outer_inputs):
        prod = {}
        for s in prog["nodes"]:
            for o in _outs(s) + list(s.get("emit", [])):
                prod.setdefault(o, s)
        for s in prog["nodes"]:
            cpath = self._path(parent, s)
            for p in _ins(s):
                if p in prod and prod[p] is not s:
                    for pl in self._leaf_producers(parent, prod[p], p):
                        for cl in self._leaf_consumers(parent, s, p):
                            self.deps.append((pl, cl, "data", p))
                elif p not in prod and parent is None:
                    for cl in self._leaf_consumers(parent, s, p):
                        self.input_consumers.setdefault(p, set()).add(cl)
            for w in s.get("wait_for", []):
                if w in prod and prod[w] is not s:
                    for pl in self._leaf_producers(parent, prod[w], w):
                        self.deps.append((pl, cpath, "ordering", w))
            if s["kind"] in ("route", "ifelse"):
                tg = s["targets"] if s["kind"] == "route" else [s["when_true"], s["when_false"]]
                for t in tg:
                    if t == "END":
                        self.end_gates.add(cpath)
                    else:
                        self.deps.append((cpath, t if parent is None else f"{parent}/{t}", "control", ""))
            if s["kind"] == "graph":
                self._level(s["inner"], cpath, {})

    def chain(self, n):
        out = [n]
        while self.parent.get(out[-1]) is not None:
            out.append(self.parent[out[-1]])
        return out

    def descendants(self, c):
        return [n for n in self.parent if n != c and c in self.chain(n)]


def _outs(s):
    if s["kind"] == "graph":
        return [o for i in s["inner"]["nodes"] for o in _outs(i)]
    return list(s.get("outs", []))


def _ins(s):
    if s["kind"] == "graph":
        produced = {o for i in s["inner"]["nodes"] for o in _outs(i)}
        return list(dict.fromkeys(p for i in s["inner"]["nodes"] for p in _ins(i) if p not in produced))
    return list(s.get("params", []))


# ---------------------------------------------------------------- interactive view oracle
def parse_state(key):
    exp, sep = {}, 0
    for part in key.replace("|", ",").split(","):
        k, _, v = part.rpartition(":")
        if k == "sep":
            sep = int(v)
        elif k:
            exp[k] = int(v)
    return exp, sep


def check_state(st, key, nodes, edges):
    out = []
    exp, sep = parse_state(key)
    ids = [n["id"] for n in nodes]
    if len(ids) != len(set(ids)):
        dup = sorted({i for i in ids if ids.count(i) > 1})
        out.append(("node-declared-twice", f"state {key}: node ids declared more than once: {dup}"))
    decl = {n["id"]: n for n in nodes}
    hidden = {i for i, n in decl.items() if n.get("hidden")}
    vis = set(decl) - hidden
    # program nodes: declared once, visible iff every ancestor container is expanded
    for n in st.parent:
        if n not in decl:
            out.append(("program-node-missing", f"state {key}: program node {n} is not declared"))
            continue
        anc = st.chain(n)[1:]
        should = all(exp.get(a, 0) == 1 for a in anc)
        if (n in vis) != should:
            out.append(("node-visibility", f"state {key}: node {n} is {'visible' if n in vis else 'hidden'} but its ancestors {anc} are {'all expanded' if should else 'not all expanded'}"))
    for e in edges:
        for end in ("source", "target"):
            if e[end] not in decl:
                out.append(("edge-endpoint-undeclared", f"state {key}: edge {e['source']} -> {e['target']} has undeclared {end}"))

    def reps(n):
        return [x for x in st.chain(n) if x in vis]

    et = lambda e: (e.get("data") or {}).get("edgeType")  # noqa: E731
    label = {i: (n.get("data") or {}).get("label") for i, n in decl.items()}
    ntype = {i: (n.get("data") or {}).get("nodeType") for i, n in decl.items()}
    dedges = [e for e in edges if et(e) in ("data", "control", "ordering")]
    oedges = [e for e in edges if et(e) == "output"]
    # completeness
    for (p, c, kind, value) in st.deps:
        rp, rc = reps(p), reps(c)
        if not rp or not rc or rp[0] == rc[0]:
            continue
        if kind == "control" and st.kind.get(c) == "graph":
            rc = rc + [d for d in st.descendants(c) if d in vis]
        found = False
        if sep == 0 or kind != "data":
            for e in dedges:
                if e["source"] in rp and e["target"] in rc and (et(e) == kind or kind in ("control", "ordering")):
                    found = True
                    break
            if not found and sep == 1 and kind != "data":
                # ordering / control drawn through a DATA node in separate mode
                for e in dedges:
                    if e["target"] in rc and ntype.get(e["source"]) == "DATA" and any(o["target"] == e["source"] and o["source"] in rp for o in oedges):
                        found = True
                        break
        else:
            for e in dedges:
                if et(e) == "data" and e["target"] in rc and ntype.get(e["source"]) == "DATA" and label.get(e["source"]) == value and e["source"] in vis:
                    if any(o["target"] == e["source"] and o["source"] in rp for o in oedges):
                        found = True
                        break
        if not found:
            multi = sum(1 for d in st.deps if d[0] == p and d[3] == value and d[2] == kind and st.chain(d[1])[1:2] == st.chain(c)[1:2]) > 1
            feature = "several-consumers-of-one-value-inside-one-expanded-container" if (kind == "data" and multi and len(st.chain(c)) > 1 and st.chain(c)[1] in vis) else "other"
            out.append(("dependency-not-drawn", f"state {key}: {kind} dependency {p} -> {c} ({value}) has no edge between visible representatives {rp} -> {rc}", feature, kind))
    # no spurious producer/consumer edges
    for e in dedges:
        s, t = e["source"], e["target"]
        if s in hidden or t in hidden:
            out.append(("edge-on-hidden-node", f"state {key}: {et(e)} edge {s} -> {t} touches a hidden node"))
            continue
        if ntype.get(s) == "DATA":
            ok = any(t in reps(c) or (k == "control" and t in st.descendants(c)) for (p, c, k, v) in st.deps if v == label.get(s) or k != "data")
        else:
            ok = any(s in reps(p) and (t in reps(c) or (k == "control" and t in st.descendants(c))) for (p, c, k, v) in st.deps)
        if not ok:
            out.append(("spurious-edge", f"state {key}: {et(e)} edge {s} -> {t} corresponds to no dependency"))
    for e in oedges:
        s, t = e["source"], e["target"]
        if s in hidden or t in hidden:
            out.append(("edge-on-hidden-node", f"state {key}: output edge {s} -> {t} touches a hidden node"))
    for e in edges:
        if et(e) == "end":
            s = e["source"]
            if s in hidden:
                out.append(("edge-on-hidden-node", f"state {key}: END edge from hidden node {s}"))
            elif not any(s in reps(g) for g in st.end_gates):
                out.append(("spurious-edge", f"state {key}: END edge from {s}, which is no gate with an END target"))
        if et(e) == "input":
            name = label.get(e["source"])
            t = e["target"]
            cons = st.input_consumers.get(name)
            if cons is not None and not any(t in st.chain(c) for c in cons):
                out.append(("spurious-edge", f"state {key}: input edge {name} -> {t}, but {t} does not consume {name}"))
    return out


def check_render(st, r):
    out = []
    m = r["meta"]
    nk, ek = set(m["nodesByState"]), set(m["edgesByState"])
    if nk != ek:
        out.append(("state-keys-differ", f"nodesByState has {sorted(nk - ek)} extra, edgesByState has {sorted(ek - nk)} extra"))
    containers = [n for n, k in st.kind.items() if k == "graph"]
    # every valid expansion state must be present: child expanded only if parent expanded
    valid = 0
    for bits in itertools.product((0, 1), repeat=len(containers)):
        e = dict(zip(containers, bits))
        if all(not e[c] or all(e.get(a, 1) for a in st.chain(c)[1:]) for c in containers):
            valid += 1
    if len(nk) != 2 * valid:
        out.append(("state-count", f"{len(nk)} state keys for {valid} valid expansion states x 2 output modes"))
    for key in sorted(nk & ek):
        nodes, edges = m["nodesByState"][key], m["edgesByState"][key]
        if not nodes:
            out.append(("state-empty", f"state {key}: no nodes"))
            continue
        out += check_state(st, key, nodes, edges)
    return out, len(nk & ek)


# ---------------------------------------------------------------- Mermaid oracle
_NODE = re.compile(r'^\s*(?:subgraph\s+)?([A-Za-z0-9_]+)\s*(?:\[|\{\{|\(\[|\[/)')
_EDGE = re.compile(r'^\s*([A-Za-z0-9_]+)\s*(-->|-\.->|==>)\s*(?:\|([^|]*)\|\s*)?([A-Za-z0-9_]+)\s*$')


def check_mermaid(st, src, depth, sep):
    out = []
    body = src.split("%% Styling")[0]
    nodes, edges = [], []
    for line in body.splitlines():
        m = _EDGE.match(line)
        if m:
            edges.append((m.group(1), m.group(4), m.group(2), m.group(3)))
            continue
        m = _NODE.match(line)
        if m and not line.strip().startswith(("flowchart", "%%", "end", "classDef", "class ")):
            nodes.append(m.group(1))
    mid = lambda n: n.replace("/", "__")  # noqa: E731
    vis = {n for n in st.parent if len(st.chain(n)) - 1 <= depth}
    declared = set(nodes)
    if len(nodes) != len(declared):
        out.append(("node-declared-twice", f"mermaid depth {depth} sep {sep}: a node id is declared twice"))
    for n in vis:
        if mid(n) not in declared:
            out.append(("program-node-missing", f"mermaid depth {depth} sep {sep}: visible node {n} missing"))
    for n in set(st.parent) - vis:
        if mid(n) in declared:
            out.append(("node-visibility", f"mermaid depth {depth} sep {sep}: node {n} is drawn although deeper than {depth}"))
    for s, t, _, _ in edges:
        for x in (s, t):
            if x not in declared:
                out.append(("edge-endpoint-undeclared", f"mermaid depth {depth} sep {sep}: edge {s} -> {t} uses undeclared id {x}"))

    def reps(n):
        return [mid(x) for x in st.chain(n) if x in vis]

    datan = {n for n in declared if n.startswith("data_")}
    for (p, c, kind, value) in st.deps:
        rp, rc = reps(p), reps(c)
        if not rp or not rc or rp[0] == rc[0]:
            continue
        if kind == "control" and st.kind.get(c) == "graph":
            rc = rc + [mid(d) for d in st.descendants(c) if d in vis]
        found = any(s in rp and t in rc for s, t, _, _ in edges)
        if not found and sep:
            for s, t, _, lab in edges:
                if t in rc and s in datan and (lab == value or kind != "data") and any(s2 in rp and t2 == s for s2, t2, _, _ in edges):
                    found = True
                    break
        if not found:
            multi = sum(1 for d in st.deps if d[0] == p and d[3] == value and d[2] == kind and st.chain(d[1])[1:2] == st.chain(c)[1:2]) > 1
            feature = "several-consumers-of-one-value-inside-one-expanded-container" if (kind == "data" and multi and len(st.chain(c)) > 1 and st.chain(c)[1] in vis) else "other"
            out.append(("dependency-not-drawn", f"mermaid depth {depth} sep {sep}: {kind} dependency {p} -> {c} ({value}) not drawn between {rp} and {rc}", feature, kind))
    for s, t, _, lab in edges:
        if s.startswith("input_") or t == "__end__" or s in datan or t in datan:
            continue
        if not any(s in reps(p) and (t in reps(c) or (k == "control" and t in [mid(d) for d in st.descendants(c)])) for (p, c, k, v) in st.deps):
            out.append(("spurious-edge", f"mermaid depth {depth} sep {sep}: edge {s} -> {t} corresponds to no dependency"))
    return out


def check_flat(st, g):
    out = []
    fg = g.to_flat_graph()
    ids = list(fg.nodes())
    if sorted(ids) != sorted(st.parent):
        out.append(("flat-graph-nodes", f"flat graph nodes {sorted(ids)} expected {sorted(st.parent)}"))
    for n, par in fg.nodes(data="parent"):
        if n in st.parent and par != st.parent[n]:
            out.append(("flat-graph-parent", f"flat graph: {n} has parent {par}, expected {st.parent[n]}"))
    return out


def check_program(acc, name, prog, tier):
    from hypergraph.viz.renderer import render_graph

    st = Struct(prog)
    w = {"name": name, "program": prog}
    try:
        g = build(prog, H())
    except Exception as e:  # noqa: BLE001
        acc.counters["program_rejected_by_constructor"] += 1
        return
    vs = check_flat(st, g)
    r = render_graph(g.to_flat_graph(), depth=0)
    v2, nstates = check_render(st, r)
    vs += v2
    acc.evaluations += nstates
    ncont = sum(1 for k in st.kind.values() if k == "graph")
    maxd = max(len(st.chain(n)) - 1 for n in st.parent)
    for d in range(0, maxd + 1):
        for sep in (False, True):
            src = g.to_mermaid(depth=d, separate_outputs=sep).source
            acc.evaluations += 1
            vs += check_mermaid(st, src, d, sep)
            if ncont:
                acc.key((name, "mermaid", d, sep))
    if ncont:
        for k in r["meta"]["nodesByState"]:
            acc.key((name, k))
    for v in vs:
        sym, msg = v[0], v[1]
        sig = {"symptom": sym}
        if sym == "dependency-not-drawn":
            sig["feature"] = v[2]
            sig["kind"] = v[3]
            sig["view"] = "mermaid" if msg.startswith("mermaid") else "interactive"
        acc.violation(sig, w, f"{name}: {msg}", size=len(repr(prog)))
    acc.outcomes[("generated" if name.startswith("gen-") else name, "ok" if not vs else vs[0][0])] += 1


def shards(tier, seed):
    return [(tier, seed, s, 32) for s in range(32)]


def run_shard(shard):
    tier, seed, s, k = shard
    acc = Acc()
    i = 0
    for name, prog in itertools.chain(templates(), generated(tier, seed)):
        i += 1
        if i % k != s:
            continue
        check_program(acc, name, prog, tier)
        if i <= 10:
            acc.sample({"program": name, "spec": prog}, 1)
    return acc


def coverage_extra(acc, tier, seed):
    return {"bounds": {"generated": "DAG shapes N<=3 (quick: N=3 sliced 1/10), every convex subset as container, re-wrapped inside" + (" and around (depth 3)" if tier == "thorough" else ""), "templates": [n for n, _ in templates()]}}


def replay(rep):
    acc = Acc()
    check_program(acc, rep["name"], rep["program"], "quick")
    return [v["message"] for v in acc.violations.values()]
