"""Reference oracles in boring Python (DESIGN 3.7).  Nothing here imports hypergraph."""
from __future__ import annotations

from .dsl import canon


def term(nid, n_outs, args):
    a = tuple(sorted(args.items()))
    if n_outs == 0:
        return ()
    return tuple((nid, i, a) for i in range(n_outs))


def eval_dag(program, provided):
    """Dependency-order evaluation of a gate-free acyclic program given in topological order.

    Source precedence per parameter: upstream output > run-time value > bound value > signature default.
    Returns (values, calls, unsat) where calls maps node id -> reference arguments (by original
    parameter name) and unsat is the set of nodes whose inputs cannot be satisfied.
    """
    bound = {k: canon(v) for k, v in (program.get("bind") or {}).items()}
    provided = {k: canon(v) for k, v in provided.items()}
    values = {}
    calls = {}
    unsat = set()
    for spec in program["nodes"]:
        args = {}
        ok = True
        rn = spec.get("rename_in") or {}
        for p in spec.get("params", []):
            ext = rn.get(p, p)
            if ext in values:
                args[p] = values[ext]
            elif ext in provided:
                args[p] = provided[ext]
            elif ext in bound:
                args[p] = bound[ext]
            elif p in spec.get("defaults", {}):
                args[p] = canon(spec["defaults"][p])
            else:
                ok = False
                break
        if not ok:
            unsat.add(spec["id"])
            continue
        calls[spec["id"]] = args
        outs = spec.get("outs", [])
        ro = spec.get("rename_out") or {}
        b = spec.get("behav")
        if isinstance(b, dict) and "const" in b and len(outs) == 1:
            values[ro.get(outs[0], outs[0])] = canon(b["const"])
            continue
        if spec.get("gen") and len(outs) == 1:
            # a generator node: the node's value is the LIST of what it yields (here: the three components of its term)
            values[ro.get(outs[0], outs[0])] = list(term(spec["id"], 1, args)[0])
            continue
        for o, v in zip(outs, term(spec["id"], len(outs), args)):
            values[ro.get(o, o)] = v
    return values, calls, unsat
