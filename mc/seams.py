"""Run-time seams (DESIGN 3.5).  Nothing in /repo/src changes: pass-through wrappers are installed
around module attributes the runners look up by name.  A missing seam target is a harness error."""
from __future__ import annotations

import contextvars

from .explorer import HarnessError

CURRENT = None  # the per-execution harness (mc.dsl.H) or None (pass-through)
_installed = False

# (run_id, step_index, graph) of the superstep the current code runs in
cur_step = contextvars.ContextVar("mc_cur_step", default=None)


def install():
    global _installed
    if _installed:
        return
    try:
        import hypergraph.runners.async_.runner as ar
        import hypergraph.runners.sync.runner as sr

        orig_sync = sr.run_superstep_sync
        orig_async = ar.run_superstep_async
    except (ImportError, AttributeError) as e:  # pragma: no cover
        raise HarnessError(f"seam missing: {e}") from e

    def run_superstep_sync(graph, state, ready_nodes, provided_values, execute_node, **kw):
        h = CURRENT
        if h is None:
            return orig_sync(graph, state, ready_nodes, provided_values, execute_node, **kw)
        tok = h.step_begin("sync", graph, state, ready_nodes, provided_values, kw.get("run_id", ""))
        ctok = cur_step.set(tok)
        try:
            new_state = orig_sync(graph, state, ready_nodes, provided_values, execute_node, **kw)
        except BaseException as e:
            cur_step.reset(ctok)
            h.step_end(tok, None, e)
            raise
        cur_step.reset(ctok)
        h.step_end(tok, new_state, None)
        return new_state

    async def run_superstep_async(graph, state, ready_nodes, provided_values, execute_node, *a, **kw):
        h = CURRENT
        if h is None:
            return await orig_async(graph, state, ready_nodes, provided_values, execute_node, *a, **kw)
        tok = h.step_begin("async", graph, state, ready_nodes, provided_values, kw.get("run_id", ""))
        ctok = cur_step.set(tok)
        try:
            new_state = await orig_async(graph, state, ready_nodes, provided_values, execute_node, *a, **kw)
        except BaseException as e:
            cur_step.reset(ctok)
            h.step_end(tok, None, e)
            raise
        cur_step.reset(ctok)
        h.step_end(tok, new_state, None)
        return new_state

    run_superstep_sync.__wrapped__ = orig_sync
    run_superstep_async.__wrapped__ = orig_async
    sr.run_superstep_sync = run_superstep_sync
    ar.run_superstep_async = run_superstep_async
    _installed = True


class use:
    """Context manager installing a harness as the current one."""

    def __init__(self, h):
        self.h = h

    def __enter__(self):
        global CURRENT
        install()
        self.prev = CURRENT
        CURRENT = self.h
        return self.h

    def __exit__(self, *exc):
        global CURRENT
        CURRENT = self.prev
        return False
