"""Hand-written program templates (gated, cyclic, nested, mapped, signals) shared by several properties."""
from __future__ import annotations

import copy


def fn(id, params=(), outs=(), **kw):
    return {"id": id, "kind": "fn", "params": list(params), "outs": list(outs), **kw}


def ifelse(id, params, wt, wf, **kw):
    return {"id": id, "kind": "ifelse", "params": list(params), "when_true": wt, "when_false": wf, **kw}


def route(id, params, targets, **kw):
    return {"id": id, "kind": "route", "params": list(params), "targets": list(targets), **kw}


def interrupt(id, params, outs, **kw):
    return {"id": id, "kind": "interrupt", "params": list(params), "outs": list(outs), **kw}


def gnode(id, inner, **kw):
    return {"id": id, "kind": "graph", "inner": inner, **kw}


def prog(nodes, **kw):
    return {"nodes": list(nodes), **kw}


def set_async(program, flag=True):
    """Deep copy with every function node (at any depth) async / sync."""
    p = copy.deepcopy(program)

    def rec(pr):
        for s in pr["nodes"]:
            if s["kind"] in ("fn", "interrupt"):
                if flag:
                    s["async"] = True
                else:
                    s.pop("async", None)
            elif s["kind"] == "graph":
                rec(s["inner"])

    rec(p)
    return p


def all_specs(program):
    for s in program["nodes"]:
        yield s
        if s["kind"] == "graph":
            yield from all_specs(s["inner"])


# ---------------------------------------------------------------- gated DAGs
def diamond_ifelse(default_open=True):
    return prog(
        [
            fn("src", ["e0"], ["a0"]),
            ifelse("gt", ["a0"], "lft", "rgt", default_open=default_open),
            fn("lft", ["a0"], ["m0"]),
            fn("rgt", ["a0"], ["m0"]),
            fn("join", ["m0"], ["j0"]),
        ]
    )


def route3(default_open=True, fallback=None):
    kw = {"fallback": fallback} if fallback else {}
    return prog(
        [
            fn("src", ["e0"], ["a0"]),
            route("gt", ["a0"], ["p", "pq", "END"], default_open=default_open, **kw),
            fn("p", ["a0"], ["x0"]),
            fn("pq", ["a0"], ["y0"]),
            fn("side", ["e0"], ["s0"]),
        ]
    )


def multi_route(default_open=True):
    return prog(
        [
            fn("src", ["e0"], ["a0"]),
            route("gt", ["a0"], ["p", "pq", "r"], multi=True, default_open=default_open),
            fn("p", ["a0"], ["x0"]),
            fn("pq", ["a0"], ["y0"]),
            fn("r", ["a0"], ["z0"]),
        ]
    )


def two_gates_shared_target(open1=True, open2=False):
    return prog(
        [
            fn("src", ["e0"], ["a0"]),
            ifelse("g1", ["a0"], "t", "u", default_open=open1),
            route("g2", ["e0"], ["t", "v"], default_open=open2),
            fn("t", ["e0"], ["t0"]),
            fn("u", ["e0"], ["u0"]),
            fn("v", ["e0"], ["v0"]),
        ]
    )


# ---------------------------------------------------------------- loops
def counter_loop(limit=3, with_side=True, gate_kind="route", exit_node=False):
    """inc(count)->count ; gate(count) -> inc | END (or exit node)."""
    nodes = [fn("inc", ["count"], ["count"], behav={"py": "count + 1"})]
    stop = "fin" if exit_node else "END"
    if gate_kind == "route":
        nodes.append(route("gt", ["count"], ["inc", stop], behav={"py": f"'inc' if count < {limit} else {('END' if not exit_node else repr(stop))}"}))
    else:
        nodes.append(ifelse("gt", ["count"], "inc", stop, behav={"py": f"count < {limit}"}))
    if exit_node:
        nodes.append(fn("fin", ["count"], ["done"], behav={"py": "('done', count)"}))
    if with_side:
        nodes.append(fn("side", ["count"], ["sq"], behav={"py": "count * count"}))
    return prog(nodes)


# ---------------------------------------------------------------- nested / mapped
def nested_fanout():
    inner = prog([fn("nb", ["a0"], ["b0"]), fn("nc", ["a0"], ["c0"])], name="inner")
    return prog([fn("na", ["e0"], ["a0"]), gnode("inner", inner), fn("nd", ["e0"], ["d0"]), fn("ne", ["b0", "c0", "d0"], ["f0"])])


def two_nested():
    """Two sibling graph nodes running in the same step (span parenting under concurrency)."""
    ga = prog([fn("a1", ["x"], ["pa"]), fn("a2", ["pa"], ["qa"])], name="ga")
    gb = prog([fn("b1", ["x"], ["pb"]), fn("b2", ["pb"], ["qb"])], name="gb")
    return prog([gnode("ga", ga), gnode("gb", gb), fn("jn", ["qa", "qb"], ["j0"])])


def nested_depth(depth=2):
    p = prog([fn("leaf1", ["x"], ["y"]), fn("leaf2", ["x"], ["z"])], name="lvl0")
    for d in range(1, depth + 1):
        p = prog([gnode(f"lvl{d - 1}", p), fn(f"sib{d}", ["x"], [f"s{d}"])], name=f"lvl{d}")
    return p


def mapped_node(mode="zip", err="raise", two_params=False):
    inner = prog([fn("mb", ["x"] + (["w"] if two_params else []), ["b0"]), fn("mc", ["b0", "k"], ["c0"])], name="minner")
    mo = ["x", "w"] if two_params else ["x"]
    return prog([fn("ma", ["e0"], ["k"]), gnode("minner", inner, map_over=mo, map_mode=mode, map_err=err), fn("md", ["c0"], ["d0"])])
