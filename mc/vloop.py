"""Virtual asyncio event loop whose only nondeterminism is owned by the explorer (DESIGN 3.4)."""
from __future__ import annotations

import asyncio
import heapq
from asyncio import events

from .explorer import HarnessError


class Deadlock(Exception):
    pass


class Horizon(Exception):
    pass


class VLoop(asyncio.BaseEventLoop):
    """No selector, virtual time; callbacks run FIFO; parked futures are released by the chooser."""

    def __init__(self):
        super().__init__()
        self._vtime = 0.0
        self.pending = []  # [(label, future)] in creation order
        self.exc_log = []
        self.set_exception_handler(lambda loop, ctx: self.exc_log.append(ctx))

    def time(self):
        return self._vtime

    def _process_events(self, event_list):  # pragma: no cover - never called
        pass

    def _write_to_self(self):
        pass

    # ------------------------------------------------------------------
    def park(self, label):
        fut = self.create_future()
        self.pending.append((label, fut))
        return fut

    def _drain(self, budget):
        steps = 0
        while True:
            while self._ready:
                h = self._ready.popleft()
                if not h._cancelled:
                    h._run()
                steps += 1
                if steps > budget:
                    raise Horizon(f"more than {budget} callbacks without quiescence")
            if self._scheduled:
                # timers: advance virtual time to the earliest one (deterministic)
                h = heapq.heappop(self._scheduled)
                h._scheduled = False
                if h._cancelled:
                    continue
                self._vtime = max(self._vtime, h._when)
                self._ready.append(h)
                continue
            return

    def run_main(self, coro, chooser, budget=200000, max_points=10000):
        """Run ``coro`` to completion; every release of a parked future is a 'sched' choice."""
        old = events._get_running_loop()
        events._set_running_loop(self)
        self._thread_id = __import__("threading").get_ident()
        try:
            task = self.create_task(coro)
            npoints = 0
            while True:
                self._drain(budget)
                if task.done():
                    break
                live = [(l, f) for (l, f) in self.pending if not f.done()]
                self.pending = live
                if not live:
                    task.cancel()
                    self._drain(budget)
                    raise Deadlock("main task not done and nothing pending")
                npoints += 1
                if npoints > max_points:
                    raise Horizon(f"more than {max_points} scheduling points")
                labels = tuple(l for l, _ in live)
                i = chooser.choose("sched", labels, len(live))
                l, f = live.pop(i)
                self.pending = live
                f.set_result(None)
            return task.result()
        finally:
            self._thread_id = None
            events._set_running_loop(old)


def run_async(coro_factory, chooser, **kw):
    loop = VLoop()
    try:
        return loop.run_main(coro_factory(loop), chooser, **kw), loop
    finally:
        # cancel leftovers deterministically
        try:
            loop.close()
        except Exception:
            pass
