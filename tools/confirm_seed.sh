#!/bin/bash
# tools/confirm_seed.sh <dir with patch.diff demo.py meta.json> <seed id>
# Confirms in a scratch worktree of /repo HEAD: patch applies, suite green with it, demo fails with it, demo passes without.
SRC=$1; ID=$2
WT=/tmp/confirm_$ID
rm -rf "$WT"; git -C /repo worktree prune
git -C /repo worktree add -q --detach "$WT" HEAD || exit 3
OUT=/verif/seeded/$ID; mkdir -p "$OUT"
cp "$SRC/patch.diff" "$OUT/patch.diff"; cp "$SRC/demo.py" "$OUT/demo.py"
res() { echo "$1"; }
APPLY=ok; git -C "$WT" apply "$OUT/patch.diff" 2>/dev/null || APPLY=failed
SUITE=skipped; DEMO_MUT=skipped; DEMO_CLEAN=skipped
if [ $APPLY = ok ]; then
  SUITE=$(/verif/tools/suite.sh "$WT" | tr '\n' ' ')
  (cd "$WT" && PYTHONPATH="$WT/src" timeout 300 /venv/bin/python "$OUT/demo.py" >/dev/null 2>&1); DEMO_MUT=$?
  git -C "$WT" checkout -- .
  (cd "$WT" && PYTHONPATH="$WT/src" timeout 300 /venv/bin/python "$OUT/demo.py" >/dev/null 2>&1); DEMO_CLEAN=$?
fi
git -C /repo worktree remove --force "$WT"
python3 - "$SRC/meta.json" "$OUT/meta.json" "$APPLY" "$SUITE" "$DEMO_MUT" "$DEMO_CLEAN" "$(git -C /repo rev-parse --short HEAD)" <<'PY'
import json,sys
src,out,apply,suite,dm,dc,head=sys.argv[1:]
try: m=json.load(open(src))
except Exception: m={}
m.pop("suite",None)
m["confirmed"]={"base_commit":head,"patch_applies":apply,"suite_with_change":suite.strip(),"demo_exit_with_change":dm,"demo_exit_without_change":dc,
 "ran":"tools/confirm_seed.sh: scratch worktree of /repo HEAD; git apply; tools/suite.sh; demo.py with and without the change; worktree removed"}
m["ok"]= apply=="ok" and "failures=0 errors=0" in suite and dm not in ("0","skipped") and dc=="0"
json.dump(m,open(out,"w"),indent=1)
print(out, m["ok"], m["confirmed"])
PY
