#!/bin/bash
# tools/intake.sh <agent scratch dir, e.g. /tmp/w5/C03a> [...]  - confirm every out/m<k> of a sub-agent (tools/confirm_seed.sh) and keep it
# as seeded/<PID>-w5<a|b>m<k>; then run the property's quick check against it in a scratch worktree (tools/run_seeds.py).
for D in "$@"; do
  base=$(basename "$D"); pid=${base:0:3}; tag=${base:3:1}
  for k in 1 2 3; do
    [ -f "$D/out/m$k/patch.diff" ] || continue
    id="$pid-w${WAVE:-5}${tag}m$k"
    /verif/tools/confirm_seed.sh "$D/out/m$k" "$id" | tail -1 | cut -c1-330
  done
done
