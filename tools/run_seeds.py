#!/usr/bin/env python3
"""tools/run_seeds.py [ids...] - apply every confirmed seeded change to /repo, run the quick check of its
property, revert, and write /verif/seeded/RESULTS.md (which checks catch which changes)."""
import glob
import json
import os
import re
import subprocess
import sys

VERIF = os.path.dirname(os.path.dirname(os.path.abspath(__file__)))


def sh(cmd, **kw):
    return subprocess.run(cmd, shell=True, capture_output=True, text=True, **kw)


def main():
    want = set(sys.argv[1:])
    rows = []
    assert sh("git -C /repo status --porcelain").stdout.strip() == "", "/repo working tree must be clean"
    for d in sorted(glob.glob(os.path.join(VERIF, "seeded", "C*-m*"))):
        sid = os.path.basename(d)
        if want and sid not in want:
            continue
        meta = json.load(open(os.path.join(d, "meta.json")))
        pid = sid.split("-")[0]
        if meta.get("status") == "obsolete":
            rows.append((sid, pid, "obsolete", "-", meta.get("summary", "")[:90]))
            continue
        if not meta.get("ok"):
            rows.append((sid, pid, "unconfirmed", "-", meta.get("summary", "")[:90]))
            continue
        a = sh(f"git -C /repo apply {d}/patch.diff")
        if a.returncode != 0:
            rows.append((sid, pid, "patch-does-not-apply", "-", meta.get("summary", "")[:90]))
            continue
        try:
            r = sh(f"cd {VERIF} && ./check {pid} quick")
        finally:
            sh("git -C /repo checkout -- .")
        viol = len(re.findall(r"^VIOLATION property=", r.stdout, re.M))
        verdict = "caught" if r.returncode == 1 and viol else ("HARNESS-ERROR" if r.returncode == 2 else "MISSED")
        rows.append((sid, pid, verdict, str(viol), meta.get("summary", "")[:90]))
        print(sid, verdict, viol, flush=True)
    if not want:
        with open(os.path.join(VERIF, "seeded", "RESULTS.md"), "w") as f:
            f.write("# Seeded property-breaking changes vs. the quick checks\n\n")
            f.write("Each change was written by a fresh sub-agent that saw only the property text and a scratch worktree; `meta.json` records the\n")
            f.write("confirmation (suite green with the change, demo fails with it, passes without). Produced by `tools/run_seeds.py` at /repo HEAD "
                    + sh("git -C /repo rev-parse --short HEAD").stdout.strip() + ".\n\n")
            f.write("| seed | property | quick check | violations reported | change |\n|---|---|---|---|---|\n")
            for row in rows:
                f.write("| " + " | ".join(row) + " |\n")
        print("written seeded/RESULTS.md")
    bad = [r for r in rows if r[2] in ("MISSED", "HARNESS-ERROR")]
    return 1 if bad else 0


if __name__ == "__main__":
    sys.exit(main())
