#!/usr/bin/env python3
"""tools/run_seeds.py [-j N] [ids...] - run the quick check of its property against every confirmed seeded change and
write /verif/seeded/RESULTS.md (which checks catch which changes).

Each worker owns one scratch worktree of /repo HEAD outside /repo and /verif; a change is applied there
(git apply), the check runs with VERIF_REPO pointing at the worktree (evidence goes to the worktree, not to
/verif/evidence), and the change is undone (git checkout -- .).  /repo's own working tree is never touched, so this can
run while other checks are running.  The worktrees are removed at the end."""
import glob
import json
import os
import re
import subprocess
import sys
import tempfile
from concurrent.futures import ThreadPoolExecutor
from queue import Queue

VERIF = os.path.dirname(os.path.dirname(os.path.abspath(__file__)))


def sh(cmd, **kw):
    return subprocess.run(cmd, shell=True, capture_output=True, text=True, **kw)


def one(d, wts):
    sid = os.path.basename(d)
    meta = json.load(open(os.path.join(d, "meta.json")))
    pid = meta.get("judged_by") or sid.split("-")[0]  # (a change reclassified to another property is judged by that property's check)
    summary = " ".join(str(meta.get("summary", "")).split())[:110].replace("|", "/")
    if meta.get("status") in ("obsolete", "outside-alphabet"):
        return (sid, pid, meta["status"], "-", summary)
    if not meta.get("ok"):
        return (sid, pid, "unconfirmed", "-", summary)
    wt = wts.get()
    try:
        a = sh(f"git -C {wt} apply {d}/patch.diff")
        if a.returncode != 0:
            return (sid, pid, "patch-does-not-apply", "-", summary)
        try:
            r = sh(f"cd {VERIF} && VERIF_REPO={wt} VERIF_EVIDENCE_DIR={wt}/_evidence ./check {pid} quick")
        finally:
            sh(f"git -C {wt} checkout -- . && rm -rf {wt}/_evidence")
    finally:
        wts.put(wt)
    viol = len(re.findall(r"^VIOLATION property=", r.stdout, re.M))
    verdict = "caught" if r.returncode == 1 and viol else ("HARNESS-ERROR" if r.returncode == 2 else "MISSED")
    print(sid, verdict, viol, flush=True)
    return (sid, pid, verdict, str(viol), summary)


def main():
    args = sys.argv[1:]
    jobs = 3
    if args[:1] == ["-j"]:
        jobs = int(args[1])
        args = args[2:]
    want = set(args)
    dirs = [d for d in sorted(set(glob.glob(os.path.join(VERIF, "seeded", "C*-*m*")) + glob.glob(os.path.join(VERIF, "seeded", "C*-s*")))) if os.path.isdir(d) and (not want or os.path.basename(d) in want)]
    wts = Queue()
    made = []
    for _ in range(jobs):
        wt = tempfile.mkdtemp(prefix="seedrun.", dir="/tmp")
        os.rmdir(wt)
        assert sh(f"git -C /repo worktree add -q --detach {wt} HEAD").returncode == 0
        made.append(wt)
        wts.put(wt)
    try:
        with ThreadPoolExecutor(jobs) as ex:
            rows = list(ex.map(lambda d: one(d, wts), dirs))
    finally:
        for wt in made:
            sh(f"git -C /repo worktree remove --force {wt}")
    if not want:
        n_ok = sum(1 for r in rows if r[2] == "caught")
        n_app = sum(1 for r in rows if r[2] in ("caught", "MISSED", "HARNESS-ERROR"))
        with open(os.path.join(VERIF, "seeded", "RESULTS.md"), "w") as f:
            f.write("# Seeded property-breaking changes vs. the quick checks\n\n")
            f.write("Each change was written by a fresh sub-agent that saw only the property text and a scratch worktree; `meta.json` records the\n")
            f.write("confirmation (suite green with the change, demo fails with it, passes without). Produced by `tools/run_seeds.py` against scratch\n")
            f.write("worktrees of /repo HEAD " + sh("git -C /repo rev-parse --short HEAD").stdout.strip() + f" (VERIF_REPO). **{n_ok} of {n_app} applicable changes are reported by the quick check of their own property.**\n\n")
            f.write("| seed | property | quick check | violations reported | change |\n|---|---|---|---|---|\n")
            for row in rows:
                f.write("| " + " | ".join(row) + " |\n")
        print("written seeded/RESULTS.md", n_ok, "of", n_app)
    bad = [r for r in rows if r[2] in ("MISSED", "HARNESS-ERROR")]
    return 1 if bad else 0


if __name__ == "__main__":
    sys.exit(main())
