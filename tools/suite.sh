#!/bin/bash
# tools/suite.sh [tree]  - run the repository's pinned suite against a tree (default /repo); prints counts
TREE=${1:-/repo}
J=$(mktemp /tmp/junit.XXXXXX.xml)
cd "$TREE" && PYTHONPATH="$TREE/src" /venv/bin/python -m pytest -ra -q -p no:cacheprovider --timeout=900 --continue-on-collection-errors --junitxml="$J" >/dev/null 2>&1
python3 - "$J" <<'PY'
import sys, xml.etree.ElementTree as ET
r = ET.parse(sys.argv[1]).getroot()
ts = r if r.tag == "testsuite" else r[0]
a = ts.attrib
print(f"tests={a['tests']} failures={a['failures']} errors={a['errors']} skipped={a['skipped']}")
for tc in ts.iter("testcase"):
    for k in tc:
        if k.tag in ("failure", "error"):
            print("FAILED", tc.attrib.get("classname"), tc.attrib.get("name"))
PY
rm -f "$J"
