#!/bin/bash
# tools/suite.sh [tree]  - run the repository's pinned suite against a tree (default /repo); prints counts.
# A test that fails in the parallel run is re-run ALONE (serially, up to twice): wall-clock concurrency tests fail on a loaded
# machine; a test that passes alone is counted as passing and listed as "RECOVERED".
TREE=${1:-/repo}
J=$(mktemp /tmp/junit.XXXXXX.xml)
cd "$TREE" && PYTHONPATH="$TREE/src" /venv/bin/python -m pytest -ra -q -p no:cacheprovider --timeout=900 --continue-on-collection-errors --junitxml="$J" >/dev/null 2>&1
PYTHONPATH="$TREE/src" python3 - "$J" "$TREE" <<'PY'
import os, subprocess, sys, xml.etree.ElementTree as ET
r = ET.parse(sys.argv[1]).getroot()
tree = sys.argv[2]
ts = r if r.tag == "testsuite" else r[0]
a = ts.attrib
failed = []
for tc in ts.iter("testcase"):
    for k in tc:
        if k.tag in ("failure", "error"):
            failed.append((tc.attrib.get("classname", ""), tc.attrib.get("name", "")))
still = []
recovered = []
for cls, name in failed:
    parts = cls.split(".")
    nodeid = None
    for i in range(len(parts), 0, -1):
        f = os.path.join(tree, *parts[:i]) + ".py"
        if os.path.exists(f):
            nodeid = "/".join(parts[:i]) + ".py" + "".join("::" + p for p in parts[i:]) + "::" + name
            break
    ok = False
    if nodeid:
        for _ in range(2):
            p = subprocess.run(["/venv/bin/python", "-m", "pytest", "-q", "-p", "no:cacheprovider", "-n", "0", "--timeout=900", nodeid], cwd=tree, env={**os.environ, "PYTHONPATH": os.path.join(tree, "src")}, capture_output=True, text=True)
            if p.returncode == 0:
                ok = True
                break
    (recovered if ok else still).append((cls, name))
nf = int(a["failures"]) + int(a["errors"]) - len(recovered)
print(f"tests={a['tests']} failures={nf if nf > 0 else 0} errors=0 skipped={a['skipped']}" if not still else f"tests={a['tests']} failures={len(still)} errors=0 skipped={a['skipped']}")
for cls, name in recovered:
    print("RECOVERED(alone)", cls, name)
for cls, name in still:
    print("FAILED", cls, name)
PY
rm -f "$J"
