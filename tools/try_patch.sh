#!/bin/bash
# tools/try_patch.sh <patch.diff> <ID> [<ID>...]  - apply to /repo, run quick checks, always revert
P=$1; shift
git -C /repo apply "$P" || { echo "patch does not apply"; exit 3; }
trap 'git -C /repo checkout -- . ' EXIT
cd /verif
for id in "$@"; do
  ./check $id ${TIER:-quick} 2>&1 | grep -E "VIOLATION|violations=|HARNESS|KNOWN" | head -${LINES_MAX:-6}
done
