#!/bin/bash
# tools/try_seed_wt.sh <patch.diff> <ID> [<ID>...] - run quick checks against a scratch worktree of /repo HEAD with the patch
# applied (never touches /repo's working tree; evidence/replays of the real checks are not overwritten: VERIF_EVIDENCE_DIR)
P=$1; shift
WT=$(mktemp -d /tmp/seedwt.XXXXXX)
git -C /repo worktree add -q --detach "$WT" HEAD || exit 3
trap 'git -C /repo worktree remove --force "$WT"' EXIT
git -C "$WT" apply "$P" || { echo "patch does not apply"; exit 3; }
cd /verif
for id in "$@"; do
  VERIF_REPO="$WT" VERIF_EVIDENCE_DIR="$WT/_evidence" ./check $id ${TIER:-quick} 2>&1 | grep -E "VIOLATION|violations=|HARNESS|KNOWN" | head -${LINES_MAX:-3} | sed 's/evaluations.*outcomes=[0-9]* //'
done
